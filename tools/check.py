#!/venv/bin/python
"""check.py <property id> <quick|thorough> [--replay FILE]

Decides one property of /repo's current working tree (DESIGN.md §2):
  1. regenerate lean/SSJ/Gen/*.lean from /repo with tools/py2lean.py          (translator tie)
  2. `lake build` the driver and SSJ.Props.<id>; audit axioms / forbidden tokens (proof obligations)
  3. correspondence suites: hand-written model vs real code on generated inputs (correspondence tie)
  4. spec validation / independent oracle: the property itself on the real code
  5. all fine -> exit 0.  Anything broken -> search the REAL code for a failing input:
        found     -> VIOLATION property=<id> replay=<file>                         exit 1
        not found -> VIOLATION property=<id> replay=<file> no-failing-input-found  exit 1
     findings listed in known_findings.json print KNOWN-FINDING and do not fail the run.
  infrastructure failure (driver crash, timeout, missing toolchain) -> exit 2, never a VIOLATION.
Evidence is written to evidence/<id>.json on every run."""
import hashlib
import struct
import json
import os
import random
import re
import subprocess
import sys
import time
import traceback

VERIF = os.path.dirname(os.path.dirname(os.path.abspath(__file__)))
REPO = os.environ.get('SSJ_REPO', '/repo')
LEAN = os.path.join(VERIF, 'lean')
sys.path.insert(0, os.path.join(VERIF, 'tools', 'harness'))
os.environ.setdefault('PYTHONWARNINGS', 'ignore')

QUICK_SCALE = int(os.environ.get('SSJ_QUICK_SCALE', '3'))      # quick budgets of the table below are multiplied by this
ALLOWED_AXIOMS = {'propext', 'Classical.choice', 'Quot.sound'}
FORBIDDEN = re.compile(r'\b(sorry|admit|native_decide|bv_decide|implemented_by|unsafe)\b|^\s*axiom\s|maxHeartbeats\s+0\b|@\[\s*extern', re.M)

# ---------------------------------------------------------------- per-property configuration
# suites: (name, quick n, thorough n, kwargs)   oracles: (name, quick n, thorough n)
J5 = ['jaccard', 'cosine', 'dice', 'overlap_coefficient', 'overlap']
PROPS = {
    'C01': dict(title='set-similarity joins return every qualifying pair',
                suites=[('gen', 250, 4000), ('spec', 300, 3000), ('ordering', 40, 400), ('index', 60, 600), ('candidates', 80, 1200), ('join', 150, 2500)],
                oracles=[('setsim', 160, 3000)], oracle_props=['C01'], arith=True),
    'C02': dict(title='set-similarity joins return only qualifying pairs, once, with the true score',
                suites=[('spec', 300, 3000), ('candidates', 60, 800), ('join', 200, 3000)],
                oracles=[('setsim', 160, 3000)], oracle_props=['C02'], arith=True),
    'C03': dict(title='edit-distance join: sound, exact distance, complete up to the documented gap',
                suites=[('strings', 200, 3000), ('gen', 100, 1000), ('candidates', 60, 800), ('join', 150, 2500, {'which': 'edit_distance'})],
                oracles=[('ed', 150, 3000)], oracle_props=['C03']),
    'C04': dict(title='filters never dismiss a pair that satisfies the threshold',
                suites=[('gen', 250, 4000), ('filter_pair', 150, 3000), ('suffix_internals', 150, 3000), ('candidates', 60, 800),
                        ('filter_tables', 100, 1500), ('filter_candset', 60, 800)],
                oracles=[('filters', 150, 3000)], oracle_props=['C04'], arith=True),
    'C05': dict(title='apply_matcher keeps exactly the satisfying candidate rows',
                suites=[('apply_matcher', 200, 3000), ('split', 100, 1000)], oracles=[('matcher', 150, 3000)], oracle_props=['C05']),
    'C06': dict(title='filter_candset is row-wise filter_pair; OverlapFilter is exact',
                suites=[('filter_candset', 150, 2500), ('filter_pair', 100, 2000, {'kinds': ['overlap']}),
                        ('filter_tables', 80, 1500, {'kinds': ['overlap']}), ('candidates', 50, 600)],
                oracles=[('filters', 120, 2500)], oracle_props=['C06']),
    'C07': dict(title='a join equals filter_tables followed by apply_matcher',
                suites=[('spec', 200, 2000), ('join', 100, 1500), ('filter_tables', 80, 1200), ('apply_matcher', 80, 1200)],
                oracles=[('pipeline', 120, 2500)], oracle_props=['C07'], arith=True),
    'C08': dict(title='missing join values are handled exactly as allow_missing says',
                suites=[('missing_pairs', 150, 2500), ('join', 150, 2000), ('filter_tables', 80, 1200), ('filter_pair', 60, 800)],
                oracles=[('setsim', 120, 2000), ('filters', 60, 1000), ('ed', 50, 600)], oracle_props=['C08']),
    'C09': dict(title='empty token sets are admitted iff allow_empty',
                suites=[('index', 50, 500), ('join', 150, 2500), ('filter_pair', 100, 1500), ('filter_tables', 80, 1500)],
                oracles=[('setsim', 120, 2000), ('filters', 80, 1500)], oracle_props=['C09'], arith=True),
    'C10': dict(title='results depend only on rows and parameters, not on schedule or presentation',
                suites=[('split', 200, 3000), ('gen', 60, 500), ('ordering', 40, 400), ('join', 120, 2000, {'n_jobs_choices': (2, 3, -1, 50, 1)}),
                        ('apply_matcher', 60, 800), ('filter_candset', 60, 800)],
                oracles=[('schedule', 40, 500)], oracle_props=['C10'], real_processes=True, arith=True),
    'C11': dict(title='output tables have the documented columns and faithfully project source rows',
                suites=[('join', 200, 3000), ('filter_tables', 100, 1500), ('missing_pairs', 80, 1000)],
                oracles=[('setsim', 120, 2000), ('projection', 100, 1500)], oracle_props=['C11']),
    'C12': dict(title='calls leave inputs and tokenizer untouched; no call affects a later one',
                suites=[('session', 120, 1500), ('join', 80, 1000)], oracles=[('history', 60, 800), ('filter_objects', 60, 800)], oracle_props=['C12']),
    'C13': dict(title='joins obey transposition, threshold-refinement and operator-partition laws',
                suites=[('spec', 200, 2000), ('gen', 100, 1000), ('join', 120, 2000)], oracles=[('laws', 60, 1000)], oracle_props=['C13'], datasets=True, arith=True),
    'C14': dict(title='filters prune what their technique promises to prune',
                suites=[('gen', 250, 4000), ('candidates', 100, 1500), ('filter_pair', 100, 2000, {'kinds': ['size', 'prefix', 'position', 'overlap']}),
                        ('filter_tables', 100, 1500, {'kinds': ['size', 'prefix', 'position', 'overlap']})],
                oracles=[('filters', 150, 3000)], oracle_props=['C14'], arith=True),
    'C15': dict(title='invalid arguments are rejected up front; valid ones are never rejected',
                suites=[('gen', 120, 1000), ('session', 80, 1000), ('join', 100, 1500), ('filter_tables', 80, 1200), ('filter_candset', 100, 1500), ('apply_matcher', 100, 1500)],
                oracles=[('validation', 250, 4000), ('setsim', 60, 600), ('ed', 40, 400)], oracle_props=['C15']),
    'C16': dict(title='numeric-to-string conversion keeps missing values missing and integers integral',
                suites=[('converter', 300, 5000)], oracles=[('converter', 300, 5000)], oracle_props=['C16']),
    'C17': dict(title='the profiler reports exact unique/missing counts and key suitability',
                suites=[('profiler', 60, 600, {'n_big': 1})], oracles=[('profiler', 100, 1500)], oracle_props=['C17']),
}


# properties whose theorems speak about model functions that stage 2 of the translator regenerates from the source
# properties whose theorems speak about model functions importing the stage-1 kernel (filter_utils, validators, COMP_OP_MAP,
# get_num_processes_to_launch, split_table): everything except the converter (C16) and the profiler (C17)
GEN1_PROPS = {'C%02d' % i for i in range(1, 16)}
GENLOOPS_PROPS = {'C01', 'C02', 'C03', 'C04', 'C05', 'C06', 'C07', 'C08', 'C09', 'C10', 'C11', 'C13', 'C14', 'C17'}

AUDIT_TEMPLATE = """IMPORTS
open Lean Elab Command in
run_cmd liftCoreM do
  let env ← getEnv
  let mods := env.header.moduleNames
  let mut out : Array String := #[]
  for (n, ci) in env.constants.map₁.toList do
    if (`SSJ.Props.PID).isPrefixOf n && !n.isInternal then
      match ci with
      | .thmInfo _ =>
        match env.getModuleIdxFor? n with
        | some idx =>
          let m := mods[idx.toNat]!
          if (`SSJ.Props).isPrefixOf m then
            let ax ← Lean.collectAxioms n
            out := out.push s!"THM {n} MOD {m} AXIOMS {ax.toList}"
        | none => pure ()
      | _ => pure ()
  for l in out.qsort (· < ·) do IO.println l
"""


def sh(cmd, cwd=None, timeout=3600, env=None):
    p = subprocess.run(cmd, cwd=cwd, shell=isinstance(cmd, str), stdout=subprocess.PIPE, stderr=subprocess.STDOUT, timeout=timeout, env=env)
    return p.returncode, p.stdout.decode('utf-8', 'replace')


class Infra(Exception):
    pass


# ---------------------------------------------------------------- steps 1-2: translator, build, audit
def tree_hash():
    h = hashlib.sha256()
    for root, dirs, files in os.walk(os.path.join(REPO, 'py_stringsimjoin')):
        dirs[:] = sorted(d for d in dirs if d not in ('__pycache__', 'tests'))
        for f in sorted(files):
            if f.endswith('.py'):
                p = os.path.join(root, f)
                h.update(p.encode())
                h.update(open(p, 'rb').read())
    for root, dirs, files in os.walk(LEAN):
        dirs[:] = sorted(d for d in dirs if d not in ('.lake', 'Gen'))
        for f in sorted(files):
            if f.endswith('.lean') or f.endswith('.toml') or f == 'expected_theorems.json':
                p = os.path.join(root, f)
                h.update(p.encode())
                h.update(open(p, 'rb').read())
    for f in ('tools/py2lean.py', 'tools/py2lean2.py', 'tools/check.py'):
        h.update(open(os.path.join(VERIF, f), 'rb').read())
    return h.hexdigest()[:24]


def lean_sources():
    out = []
    for root, dirs, files in os.walk(LEAN):
        dirs[:] = [d for d in dirs if d != '.lake']
        for f in files:
            if f.endswith('.lean'):
                out.append(os.path.join(root, f))
    return sorted(out)


def strip_comments(src):
    src = re.sub(r'/-.*?-/', '', src, flags=re.S)
    return re.sub(r'--.*', '', src)


def forbidden_tokens():
    hits = []
    for p in lean_sources():
        m = FORBIDDEN.search(strip_comments(open(p).read()))
        if m:
            hits.append('%s: %s' % (os.path.relpath(p, LEAN), m.group(0).strip()))
    return hits


def prop_modules(pid):
    """the property file SSJ/Props/Cxx.lean and its companion files Cxx_*.lean (same namespace), as module names"""
    import glob
    base = os.path.join(LEAN, 'SSJ', 'Props', pid)
    files = ([base + '.lean'] if os.path.exists(base + '.lean') else []) + sorted(glob.glob(base + '_*.lean'))
    return ['SSJ.Props.' + os.path.basename(f)[:-5] for f in files]


def expected_theorems(pid):
    """committed list of the property theorems that must exist (lean/expected_theorems.json): a theorem that disappears or
    is renamed is a broken obligation, not a silent weakening.  Regenerate with tools/check.py --update-expected."""
    p = os.path.join(LEAN, 'expected_theorems.json')
    return json.load(open(p)).get(pid, []) if os.path.exists(p) else []


def build_and_audit(pid, tier, log):
    """returns dict(translator=…, build_ok, broken=[…], theorems=[…], axioms={…})"""
    res = {'translator': None, 'build_ok': False, 'broken': [], 'theorems': [], 'axioms': {}, 'cached': False}
    rc, out = sh([sys.executable, os.path.join(VERIF, 'tools', 'py2lean.py'), REPO, os.path.join(LEAN, 'SSJ', 'Gen')])
    try:
        res['translator'] = json.loads(out.strip().splitlines()[-1])
    except Exception:       # noqa: BLE001
        res['translator'] = {'error': out[-500:]}
    if (rc != 0 or res['translator'].get('error')) and pid in GEN1_PROPS:
        res['broken'].append({'kind': 'translator', 'detail': res['translator'].get('error')})
    # stage 2: the loop helpers (projection helpers, token ordering, OverlapFilter/PositionFilter.find_candidates,
    # PositionIndex.build) are re-translated into Gen/Loops.lean; Proofs/GenLoops.lean proves each EQUAL to the hand model
    rc2, out2 = sh([sys.executable, os.path.join(VERIF, 'tools', 'py2lean2.py'), REPO, os.path.join(LEAN, 'SSJ', 'Gen')])
    try:
        res['translator2'] = json.loads(out2.strip().splitlines()[-1])
    except Exception:       # noqa: BLE001
        res['translator2'] = {'error': out2[-500:]}
    uses_loops = pid in GENLOOPS_PROPS
    if (rc2 != 0 or res['translator2'].get('error')) and uses_loops:
        res['broken'].append({'kind': 'translator-stage2', 'detail': str(res['translator2'].get('error'))[:600]})
    cache_dir = os.path.join(VERIF, '.cache')
    os.makedirs(cache_dir, exist_ok=True)
    key = tree_hash()
    cache_file = os.path.join(cache_dir, 'build-%s-%s.json' % (pid, key))
    props_file = os.path.join(LEAN, 'SSJ', 'Props', pid + '.lean')
    broken_build = []
    t0 = time.time()
    if tier == 'thorough':
        # thorough: rebuild the property's proof chain from scratch
        sh('rm -rf .lake/build/lib/lean/SSJ/Props .lake/build/lib/lean/SSJ/Proofs .lake/build/ir/SSJ/Props .lake/build/ir/SSJ/Proofs', cwd=LEAN)
    # the model driver is ALWAYS rebuilt against the regenerated Gen (a no-op when nothing changed)
    rc, out = sh(['lake', 'build', 'driver'], cwd=LEAN, timeout=1800)
    log.append('lake build driver rc=%d %.1fs' % (rc, time.time() - t0))
    if rc != 0:
        broken_build.append({'kind': 'model-build', 'detail': out[-1500:]})
    if os.path.exists(cache_file) and tier == 'quick' and rc == 0:
        # proof build + audit results of exactly this tree (sources of /repo, lean/ and the translator) are reused
        c = json.load(open(cache_file))
        res.update({k: c[k] for k in ('build_ok', 'axioms', 'broken_build', 'theorems')})
        res['broken'] += c['broken_build']
        res['cached'] = True
        bad = forbidden_tokens()            # cheap, so not left to the cache
        if bad:
            res['broken'].append({'kind': 'forbidden-token', 'detail': '; '.join(bad[:5])})
        return res
    if uses_loops and not (rc2 != 0 or res['translator2'].get('error')):
        t0 = time.time()
        rcg, outg = sh(['lake', 'build', 'SSJ.Proofs.GenLoops', 'SSJ.Proofs.GenLoops2', 'SSJ.Proofs.GenLoops3'], cwd=LEAN, timeout=1800)
        log.append('lake build SSJ.Proofs.GenLoops{,2,3} rc=%d %.1fs' % (rcg, time.time() - t0))
        if rcg != 0:
            errs = [ln for ln in outg.splitlines() if 'error' in ln][:8]
            broken_build.append({'kind': 'genloops-proof', 'detail': 'generated loop code is no longer provably equal to the hand model: ' + ('\n'.join(errs) or outg[-800:])})
    if not os.path.exists(props_file):
        if os.environ.get('SSJ_DEV_NO_PROPS') != '1':       # development switch only: never set by MANIFEST commands
            broken_build.append({'kind': 'no-props-file', 'detail': props_file})
    else:
        t0 = time.time()
        mods = prop_modules(pid)
        rc, out = sh(['lake', 'build'] + mods, cwd=LEAN, timeout=3000)
        log.append('lake build %s rc=%d %.1fs' % (' '.join(mods), rc, time.time() - t0))
        if rc != 0:
            errs = [ln for ln in out.splitlines() if 'error' in ln][:12]
            broken_build.append({'kind': 'proof-build', 'detail': '\n'.join(errs) or out[-1500:]})
        else:
            res['build_ok'] = True
            audit = os.path.join(cache_dir, 'Audit_%s.lean' % pid)
            with open(audit, 'w') as fh:
                fh.write(AUDIT_TEMPLATE.replace('IMPORTS', '\n'.join('import ' + m for m in mods)).replace('PID', pid))
            rc, out = sh(['lake', 'env', 'lean', audit], cwd=LEAN, timeout=900)
            res['theorems'] = []
            for m in re.finditer(r'^THM (\S+) MOD (\S+) AXIOMS \[([^\]]*)\]', out, flags=re.M):
                res['theorems'].append(m.group(1))
                res['axioms'][m.group(1)] = [a.strip() for a in m.group(3).split(',') if a.strip()]
            if rc != 0:
                broken_build.append({'kind': 'axiom-audit', 'detail': out[-800:]})
            if not res['theorems']:
                broken_build.append({'kind': 'axiom-audit', 'detail': 'no theorem found in namespace SSJ.Props.' + pid})
            missing = [t for t in expected_theorems(pid) if t not in res['theorems']]
            if missing:
                broken_build.append({'kind': 'missing-theorem', 'detail': 'expected property theorems no longer present: ' + ', '.join(missing[:8])})
            for full in res['theorems']:
                if not set(res['axioms'][full]) <= ALLOWED_AXIOMS:
                    broken_build.append({'kind': 'axiom-audit', 'detail': '%s uses %s' % (full, res['axioms'][full])})
            if tier == 'thorough':
                t0 = time.time()
                rc, out = sh(['lake', 'env', 'leanchecker'] + mods, cwd=LEAN, timeout=3000)
                log.append('leanchecker rc=%d %.1fs' % (rc, time.time() - t0))
                res['leanchecker'] = rc == 0
                if rc != 0:
                    broken_build.append({'kind': 'leanchecker', 'detail': out[-800:]})
    bad = forbidden_tokens()
    if bad:
        broken_build.append({'kind': 'forbidden-token', 'detail': '; '.join(bad[:5])})
    res['broken'] += broken_build
    res['broken_build'] = broken_build
    if not broken_build:
        # only SUCCESSFUL builds + audits are cached (keyed by the hash of /repo's sources, lean/, the translators and this
        # script): a failure is re-examined on every run, so a transient build failure cannot pin a false alarm
        json.dump({'build_ok': res['build_ok'], 'axioms': res['axioms'], 'broken_build': broken_build, 'theorems': res['theorems']}, open(cache_file, 'w'))
    return res


# ---------------------------------------------------------------- known findings
def load_known():
    p = os.path.join(VERIF, 'known_findings.json')
    return json.load(open(p)) if os.path.exists(p) else {'findings': [], 'fixed': []}


def match_known(v, known):
    """a violation matches a listed finding iff property agrees and the finding's predicate holds on the case"""
    case = v.get('case') or {}
    for k in known['findings']:
        if k['property'] != v['property'] and v['property'] not in k.get('also', []):
            continue
        m = k['match']
        if m.get('kind') == 'converter_series_inplace_numeric':
            if case.get('entry') == 'converter' and case.get('mode') == 'series' and case.get('inplace') and \
                    case.get('dtype', '').startswith(('int', 'float')) and any(c is not None for c in case.get('values', [])) and \
                    'raised TypeError' in v.get('what', '') and 'Invalid value' in v.get('what', ''):
                return k
        elif m.get('kind') == 'overlap_filter_pair_empty_string':
            # exactly K3: BOTH strings empty, a tokenizer that yields tokens for '' (padding q-grams), and the message about filter_pair
            tkz = case.get('tokenizer') or {}
            if case.get('entry') == 'filter' and case.get('kind') == 'overlap' and (case.get('strings') or [None]) == ['', ''] and \
                    tkz.get('kind') == 'qgram' and tkz.get('padding') and 'filter_pair' in v.get('what', ''):
                return k
        elif m.get('kind') == 'cosine_size_window_admits_zero':
            # the count 0 inside the COSINE size window although round(t*t*n, 4) == 0 only because of the 4-decimal slack
            if case.get('entry') == 'size_grid' and case.get('m') == 'COSINE' and case.get('k') == 0 and \
                    round(case['t'] * case['t'] * case['n'], 4) == 0 and 'keeps hopeless' in v.get('what', ''):
                return k
            if case.get('entry') == 'filter' and case.get('kind') == 'size' and (case.get('filter') or {}).get('measure') == 'COSINE' and \
                    'cannot reach the threshold' in v.get('what', '') and re.search(r'sizes (\d+)/0\)$', v.get('what', '')):
                t = (case.get('filter') or {}).get('threshold')
                t = t.get('f') if isinstance(t, dict) else t
                try:
                    tf = struct.unpack('>d', bytes.fromhex(t))[0] if isinstance(t, str) else float(t)
                except Exception:      # noqa: BLE001
                    tf = None
                n0 = int(re.search(r'sizes (\d+)/0\)$', v['what']).group(1))
                if tf is not None and round(tf * tf * n0, 4) == 0:
                    return k
        elif m.get('kind') == 'straddling_schedule':
            # the two results differ ONLY in pairs whose raw similarity and its 4-decimal rounding disagree about the comparison
            if case.get('entry') == 'join' and case.get('which') in ('jaccard', 'cosine', 'dice') and case.get('straddling_only') is True:
                return k
        elif m.get('kind') == 'bag_mode_pipeline':
            if case.get('entry') == 'join' and case.get('bag_mode') is True and case.get('bag_mode_repeats') is True:
                return k
        elif m.get('kind') == 'id_column_clash':
            kw = case.get('kw') or {}
            if case.get('entry') == 'join' and 'ValueError' in v.get('what', '') and \
                    '_id' in (str(kw.get('l_out_prefix', 'l_')) + str(case.get('l_key')), str(kw.get('r_out_prefix', 'r_')) + str(case.get('r_key'))):
                return k
        elif m.get('kind') == 'levenshtein_mod_256':
            # py_stringmatching's own Levenshtein disagrees with the true distance on the very pair the violation is about
            if case.get('py_stringmatching_levenshtein') is not None and case.get('true_levenshtein') != case.get('py_stringmatching_levenshtein') \
                    and any(ord(ch) > 255 for x in case.get('pair_strings', []) for ch in x):
                return k
        elif m.get('kind') == 'converter_extension_dtype':
            if case.get('entry') == 'converter' and str(case.get('dtype', ''))[:1].isupper() and \
                    str(case.get('dtype', '')).rstrip('0123456789') in ('Int', 'UInt', 'Float') and 'TypeError' in v.get('what', ''):
                return k
        elif m.get('kind') == 'size_ed_float_rounding':
            # SizeFilter / EDIT_DISTANCE with a non-integral float threshold t such that n + t or n - t is not exact in binary64
            flt = case.get('filter') or {}
            t = flt.get('threshold')
            t = t.get('f') if isinstance(t, dict) else None
            if case.get('entry') == 'filter' and case.get('kind') == 'size' and flt.get('measure') == 'EDIT_DISTANCE' and isinstance(t, str) \
                    and 'cannot reach the threshold' in v.get('what', ''):
                tf = struct.unpack('>d', bytes.fromhex(t))[0]
                mm = re.search(r'sizes (\d+)/(\d+)\)$', v.get('what', ''))
                if mm and tf != int(tf):
                    from fractions import Fraction as F_
                    n1, n2 = int(mm.group(1)), int(mm.group(2))
                    if any(F_(n + s_ * tf) != F_(n) + s_ * F_(tf) for n in (n1, n2) for s_ in (1, -1)):
                        return k
        elif m.get('kind') == 'tiny_threshold':
            t = case.get('threshold')
            if isinstance(t, float) and 0 < t < float(m['below']) and \
                    re.search(r'raised (OverflowError|ZeroDivisionError)', v.get('what', '')):
                return k
    return None


def _col_strings(tb, attr):
    """string cells of column `attr` of a frame in request form"""
    if not isinstance(tb, dict) or attr not in (tb.get('columns') or []):
        return []
    j = tb['columns'].index(attr)
    return [r[j]['s'] for r in tb.get('rows', []) if j < len(r) and isinstance(r[j], dict) and 's' in r[j]]


def _lev_wrong_pair(ls, rs):
    """is there a pair of strings on which the dependency's Levenshtein differs from the true distance (K8)?"""
    import oracle as O

    def hi(x):
        return any(ord(ch) > 255 for ch in x)        # only beyond Latin-1 can the low bytes collide
    for a in ls:
        for b2 in rs:
            if (hi(a) or hi(b2)) and O.LEV(a, b2) != int(O.LEV_REAL(a, b2)):
                return True
    return False


def _ed_call_affected(call):
    return call.get('which') == 'edit_distance' and \
        _lev_wrong_pair(_col_strings(call.get('ltable'), call.get('l_attr')), _col_strings(call.get('rtable'), call.get('r_attr')))


def _join_diff_only_k8(call, model, real):
    """K8 explains a difference between the model's and the real edit-distance join only in rows of pairs on which the
    dependency's Levenshtein is wrong: both answers must be frames with the same columns, and every row that occurs in one
    and not in the other (ignoring `_id` and the score of an affected pair) must belong to such a pair"""
    import oracle as O
    try:
        mo, ro = model['ok'], real['ok']
        if mo['columns'] != ro['columns']:
            return False
        lt, rt = call['ltable'], call['rtable']
        kj, aj = lt['columns'].index(call['l_key']), lt['columns'].index(call['l_attr'])
        lval = {json.dumps(r[kj], sort_keys=True): r[aj] for r in lt['rows']}
        kj, aj = rt['columns'].index(call['r_key']), rt['columns'].index(call['r_attr'])
        rval = {json.dumps(r[kj], sort_keys=True): r[aj] for r in rt['rows']}

        def rows(fr):
            # frames normalised by sort_rows (multiset comparison) have lost `_id` already (they carry 'n')
            return sorted(json.dumps(r if 'n' in fr else r[1:], sort_keys=True) for r in fr['rows'])
        a, b2 = rows(mo), rows(ro)
        from collections import Counter
        ca, cb = Counter(a), Counter(b2)
        diff = list((ca - cb).elements()) + list((cb - ca).elements())
        if not diff:
            return True           # same rows: only `_id` / order / index differ — not what K8 is about
        for d in diff:
            r = json.loads(d)
            x, y = lval.get(json.dumps(r[0], sort_keys=True)), rval.get(json.dumps(r[1], sort_keys=True))
            if not (isinstance(x, dict) and 's' in x and isinstance(y, dict) and 's' in y):
                return False
            if not _lev_wrong_pair([x['s']], [y['s']]):
                return False
        return True
    except Exception:      # noqa: BLE001
        return False


def mismatch_known(b, known, pid=None):
    """correspondence mismatches that are a listed finding (the model follows the documented / true behaviour).
    Each predicate must pin the finding down: a different disagreement has to stay a mismatch."""
    req = b['request']
    for k in known['findings']:
        if pid is not None and k['property'] != pid and pid not in k.get('also', []):
            continue
        m = k['match']
        if m.get('kind') == 'levenshtein_mod_256':
            # the model's lev is the true Levenshtein distance; the dependency's is wrong on SOME pairs beyond Latin-1:
            # the request must contain such a pair in the very call whose answers differ
            if req.get('op') == 'lev':
                if _lev_wrong_pair([req.get('a', '')], [req.get('b', '')]):
                    return k
            elif req.get('op') == 'join':
                if _ed_call_affected(req) and _join_diff_only_k8(req, b.get('model'), b.get('real')):
                    return k
            elif req.get('op') == 'session':
                try:
                    mo, ro = b['model']['ok'], b['real']['ok']
                    differing = [i for i, (x, y) in enumerate(zip(mo['outcomes'], ro['outcomes'])) if json.dumps(x, sort_keys=True) != json.dumps(y, sort_keys=True)]
                    same_rest = mo.get('flags') == ro.get('flags') and len(mo['outcomes']) == len(ro['outcomes'])
                except Exception:       # noqa: BLE001
                    differing, same_rest = [], False
                if same_rest and differing and all(_ed_call_affected(req['calls'][i]) and
                                                   _join_diff_only_k8(req['calls'][i], mo['outcomes'][i], ro['outcomes'][i]) for i in differing):
                    return k
        if m.get('kind') == 'converter_series_inplace_numeric' and req.get('op') == 'converter' and req.get('mode') == 'series' \
                and req.get('inplace') and req.get('dtype') in ('int', 'float') and any(c is not None for c in req.get('values', [])) \
                and b['real'].get('err') == 'TypeError' and 'Invalid value' in str(req.get('_real_err_msg', '')) and 'ok' in b.get('model', {}):
            return k
    return None


# ---------------------------------------------------------------- steps 3-4
MALFORMED_VIOLATIONS = []


CRASH_VIOLATIONS = []


def package_crash(pid, stage, name, n, seed, exc):
    """An exception that escaped from the package itself while a suite / oracle was feeding it generated VALID input
    (the harness catches the exceptions it expects): the property cannot hold on that input.  Returns a violation
    record, or None when the exception did not come out of the package (then it is an infrastructure failure)."""
    if isinstance(exc, (OSError, MemoryError, KeyboardInterrupt)) or type(exc).__name__ in ('BrokenProcessPool', 'TerminatedWorkerError'):
        return None
    tb = traceback.extract_tb(exc.__traceback__)
    pkg = os.path.join(os.path.realpath(REPO), 'py_stringsimjoin')
    frames = [f for f in tb if os.path.realpath(f.filename).startswith(pkg)]
    if not frames:
        return None
    last = frames[-1]
    where = '%s:%d in %s' % (os.path.relpath(last.filename, REPO), last.lineno, last.name)
    return {'property': pid, 'what': 'the package raised %s on generated valid input (%s %s): %s: %s' % (type(exc).__name__, stage, name, where, str(exc)[:120]),
            'case': {'entry': 'crash', 'stage': stage, 'name': name, 'n': n, 'traceback': ['%s:%d %s' % (os.path.relpath(f.filename, REPO), f.lineno, f.name) for f in frames[-6:]]},
            'oracle': name, 'seed': seed, 'n': n}


def run_suites(pid, tier, seed, stats, log, mult=1):
    import suites as S
    total, bad, per = 0, [], {}
    for spec in PROPS[pid]['suites']:
        name, nq, nt = spec[0], spec[1], spec[2]
        kw = spec[3] if len(spec) > 3 else {}
        n = (nq * QUICK_SCALE if tier == 'quick' else nt) * mult
        rng = random.Random('%s-%s-%d' % (pid, name, seed))
        t0 = time.time()
        try:
            S.TokSpec.COUNTER = 0
            cases = S.SUITES[name](rng, n, stats, **kw)
        except Exception as e:      # noqa: BLE001
            cv = package_crash(pid, 'suite', name, n, seed, e)
            if cv is None:
                raise
            CRASH_VIOLATIONS.append(cv)
            per[name] = {'cases': 0, 'mismatches': 0, 'distinct': 0, 'nontrivial': 0, 's': round(time.time() - t0, 1), 'sample': None, 'crashed': cv['what']}
            continue
        if pid == 'C15':
            MALFORMED_VIOLATIONS.extend(S.malformed_accepted(cases))
        k, b = S.run_cases(cases)
        per[name] = {'cases': k, 'mismatches': len(b), 'distinct': len(set(json.dumps(c[0], sort_keys=True) for c in cases)),
                     'nontrivial': sum(1 for c in cases if nontrivial(c[1])), 's': round(time.time() - t0, 1),
                     'sample': cases[rng.randrange(len(cases))][0] if cases else None}
        total += k
        bad += [dict(x, suite=name) for x in b]
    return total, bad, per


def nontrivial(resp):
    """a correspondence case is non-trivial if the real code produced something: a non-empty frame / list / an error"""
    if 'err' in resp:
        return True
    ok = resp.get('ok')
    if isinstance(ok, dict):
        if 'rows' in ok:
            return len(ok['rows']) > 0
        if 'outcomes' in ok:
            return any('err' in o or ('ok' in o and o['ok'].get('rows')) for o in ok['outcomes'])
        return True
    if isinstance(ok, list):
        return len(ok) > 0
    return ok is not None


def guarded(pid, name, seed, fn):
    """run an exhaustive / extra oracle; an exception escaping from the package is a violation, not a crash of the check"""
    try:
        return fn()
    except Infra:
        raise
    except Exception as e:      # noqa: BLE001
        cv = package_crash(pid, 'oracle', name, 1, seed, e)
        if cv is None:
            raise
        return [cv]


def dispatch_oracle(O, name, rng, n, stats, props, known_hits):
    if name == 'setsim':
        return O.oracle_setsim(rng, n, stats, props)
    if name == 'ed':
        return O.oracle_edit_distance(rng, n, stats, tuple(props))
    if name == 'filters':
        return O.oracle_filters(rng, n, stats, props)
    if name == 'matcher':
        return O.oracle_matcher(rng, n, stats)
    if name == 'pipeline':
        return O.oracle_pipeline(rng, n, stats)
    if name == 'schedule':
        return O.oracle_schedule(rng, n, stats)
    if name == 'history':
        return O.oracle_history(rng, n, stats)
    if name == 'filter_objects':
        return O.oracle_filter_objects(rng, n, stats)
    if name == 'projection':
        return O.oracle_projection(rng, n, stats)
    if name == 'laws':
        return O.oracle_laws(rng, n, stats)
    if name == 'validation':
        return O.oracle_validation(rng, n, stats)
    if name == 'converter':
        kh = []
        r = O.oracle_converter(rng, n, stats, kh)
        if known_hits is not None:
            known_hits += kh
        return r
    if name == 'profiler':
        return O.oracle_profiler(rng, n, stats)
    raise Infra('unknown oracle ' + name)


def run_oracles(pid, tier, seed, stats, log, mult=1, known_hits=None):
    """the independent oracles judge VALID inputs: inputs on which the body of an entry point raises are only injected
    deliberately (oracle_validation); the generator switch is off for the whole function, extras included"""
    import suites as S_
    body_errors0 = S_.BODY_ERRORS
    S_.BODY_ERRORS = False
    try:
        return run_oracles_(pid, tier, seed, stats, log, mult, known_hits)
    finally:
        S_.BODY_ERRORS = body_errors0


def run_oracles_(pid, tier, seed, stats, log, mult=1, known_hits=None):
    import oracle as O
    cfgp = PROPS[pid]
    props = set(cfgp['oracle_props']) | {'C15x'}
    v, per = [], {}
    for name, nq, nt in cfgp['oracles']:
        n = (nq * QUICK_SCALE if tier == 'quick' else nt) * mult
        rng = random.Random('%s-o-%s-%d' % (pid, name, seed))
        t0 = time.time()
        import suites as S_
        body_errors0 = S_.BODY_ERRORS
        S_.BODY_ERRORS = False       # the oracles judge VALID inputs; inputs on which the body raises are injected deliberately (oracle_validation)
        try:
            O.TokSpec.COUNTER = 0
            r = dispatch_oracle(O, name, rng, n, stats, props, known_hits)
        except Infra:
            raise
        except Exception as e:      # noqa: BLE001
            cv = package_crash(pid, 'oracle', name, n, seed, e)
            if cv is None:
                raise
            r = [cv]
        finally:
            S_.BODY_ERRORS = body_errors0
        # an oracle reports violations of several properties; this check owns its own property
        # (crashes of valid calls, reported as C15, count for every property: the property cannot hold on a crash)
        mine = [x for x in r if x['property'] == pid or (x['property'] == 'C15' and 'raised' in x['what'])]
        for x in mine:
            x['oracle'] = name
            x['seed'] = seed
            x['n'] = n
        per[name] = {'cases': n, 'violations': len(mine), 's': round(time.time() - t0, 1)}
        v += mine
    if mult == 1 and pid == 'C10':
        t0 = time.time()
        nmax, kmax = (150, 32) if tier == 'quick' else (700, 80)
        g = guarded(pid, 'split_exhaustive', seed, lambda: O.oracle_split_exhaustive(nmax, kmax, stats))
        per['split_table_exhaustive'] = {'cases': stats.c.get('oracle.split_exhaustive.cases', 0), 'violations': len(g), 'nmax': nmax, 'kmax': kmax, 's': round(time.time() - t0, 1)}
        for x in g:
            x['oracle'] = 'exhaustive-grid'
            x['seed'] = seed
            x['n'] = 1
        v += g
    if mult == 1 and pid in ('C04', 'C14'):
        t0 = time.time()
        nmax = 40 if tier == 'quick' else 160
        g = [x for x in guarded(pid, 'size_grid', seed, lambda: O.oracle_size_grid(nmax, stats)) if x['property'] == pid]
        per['size_window_grid_exhaustive'] = {'cases': stats.c.get('oracle.size_grid.points', 0), 'violations': len(g), 'nmax': nmax, 's': round(time.time() - t0, 1)}
        if pid == 'C04':
            t0 = time.time()
            u = 7 if tier == 'quick' else 9
            g += guarded(pid, 'suffix_exhaustive', seed, lambda: O.oracle_suffix_exhaustive(u, stats))
            per['suffix_estimator_exhaustive'] = {'cases': stats.c.get('oracle.suffix_exhaustive.calls', 0), 'universe': u, 's': round(time.time() - t0, 1)}
            t0 = time.time()
            lab, labc = (5, 3) if tier == "quick" else (7, 5)
            g += guarded(pid, 'ed_filters_exhaustive', seed, lambda: O.oracle_ed_filters_exhaustive(lab, labc, stats))
            per['ed_filters_exhaustive'] = {'cases': stats.c.get('oracle.ed_filters_exhaustive.checks', 0), 'strings': 'all over {a,b} up to %d, {a,b,c} up to %d' % (lab, labc), 's': round(time.time() - t0, 1)}
        for x in g:
            x['oracle'] = 'exhaustive-grid'
            x['seed'] = seed
            x['n'] = 1
        v += g
    if tier == 'thorough' and mult == 1:
        extra = []
        t0 = time.time()
        if cfgp.get('real_processes'):
            rng = random.Random('%s-real-%d' % (pid, seed))
            extra += guarded(pid, 'real_processes', seed, lambda: O.oracle_real_processes(rng, 25, stats))
            extra += guarded(pid, 'hash_seeds', seed, lambda: O.oracle_hash_seeds(seed, 120, stats))
            per['real_processes+hash_seeds'] = {'cases': 25 + 3 * 120, 's': round(time.time() - t0, 1)}
        if cfgp.get('datasets'):
            extra += guarded(pid, 'datasets', seed, lambda: O.oracle_datasets(random.Random(seed), stats))
            per['bundled_datasets'] = {'cases': 15, 's': round(time.time() - t0, 1)}
        for x in extra:
            x['oracle'] = 'thorough-extra'
            x['seed'] = seed
            x['n'] = 1
        v += [x for x in extra if x['property'] == pid or (x['property'] == 'C15' and 'raised' in x['what'])]
    return v, per


def fresh_process_check(corr_broken, seed):
    import suites as S
    import tempfile
    reqs, inproc = [], []
    for b in corr_broken:
        r = b['request']
        calls = [dict(c, op='join') for c in r.get('calls', [])] if r.get('op') == 'session' else ([r] if r.get('op') == 'join' else [])
        outs = b['real']['ok']['outcomes'] if r.get('op') == 'session' and 'ok' in b['real'] else [b['real']]
        for c, o in zip(calls, outs):
            if c.get('ltable') is not None and c.get('rtable') is not None and isinstance(c.get('tokenizer'), dict) and c['tokenizer'].get('kind'):
                reqs.append(c)
                inproc.append((o, r.get('op') == 'session' or c.get('which') in S.UNORDERED_JOINS))
    reqs, inproc = reqs[:12], inproc[:12]
    out = []
    for c, o in zip(reqs, inproc):
        with tempfile.NamedTemporaryFile('w', suffix='.json', dir=os.path.join(VERIF, '.cache'), delete=False) as fh:
            json.dump([c], fh)
            path = fh.name
        rc, txt = sh([sys.executable, os.path.join(VERIF, 'tools', 'harness', 'suites.py'), '--fresh-join', path], timeout=600,
                     env=dict(os.environ, PYTHONWARNINGS='ignore'))
        os.remove(path)
        try:
            fresh = json.loads(txt.strip().splitlines()[-1])[0]
        except Exception:      # noqa: BLE001
            continue
        o, as_multiset = o
        # the stored in-process answer is already in the suite's normal form; bring the fresh one into the same form
        a = S.norm_scores(json.loads(json.dumps(fresh)))
        if as_multiset:
            a = S.norm_multiset(a)
        b2 = json.loads(json.dumps(o))
        a.pop('flag', None)
        b2.pop('flag', None)
        if json.dumps(a, sort_keys=True) != json.dumps(b2, sort_keys=True):
            out.append({'property': 'C12', 'what': '%s_join: the result after earlier calls in the same process differs from the result of the same call in a fresh interpreter' % c.get('which'),
                        'case': {'entry': 'fresh-vs-history', 'request': c}, 'expected': a, 'actual': b2, 'oracle': 'fresh-process', 'seed': seed, 'n': 1})
    return out


def arithmetic_witness_search(pid, tier, stats):
    """§5-1: enumerate (measure, t, n, k, minimal qualifying o) with the REAL filter_utils and test the inequalities the
    proofs rest on; every hit is turned into an adversarial table pair and run through the real join."""
    import oracle as O
    from py_stringsimjoin.filter import filter_utils as FU
    hits = []
    N = 60 if tier == 'quick' else 160
    ths = sorted(set([k / 100 for k in range(1, 101)] + [k / 1000 for k in range(1, 1000, 13)]))
    for m, which in (('JACCARD', 'jaccard'), ('COSINE', 'cosine'), ('DICE', 'dice')):
        sim = O.SIMS[which]
        for t in ths:
            for n in range(1, N):
                try:
                    lo, hi, pn = FU.get_size_lower_bound(n, m, t), FU.get_size_upper_bound(n, m, t), FU.get_prefix_length(n, m, t, None)
                except Exception:      # noqa: BLE001
                    continue
                for k in range(1, n + 1):
                    # minimal o with sim >= t
                    o = None
                    for oo in range(1, k + 1):
                        raw = sim(set(range(n)), set(range(oo)) | set(range(10 ** 6, 10 ** 6 + k - oo)))
                        if raw >= t and round(raw, 4) >= t:
                            o = oo
                            break
                    if o is None:
                        continue
                    pk = FU.get_prefix_length(k, m, t, None)
                    ok = (lo <= k <= hi and FU.get_size_lower_bound(k, m, t) <= n <= FU.get_size_upper_bound(k, m, t)
                          and FU.get_overlap_threshold(n, k, m, t, None) <= o and FU.get_overlap_threshold(k, n, m, t, None) <= o
                          and pn >= n - o + 1 and pk >= k - o + 1)
                    if not ok:
                        hits.append((which, t, n, k, o))
                        if len(hits) >= 5:
                            return hits
    return hits


def witness_to_violation(pid, w):
    """build the adversarial tables for an arithmetic witness and run the real join / filters on it"""
    import oracle as O
    import pandas as pd
    which, t, n, k, o = w
    common_toks = ['c%03d' % i for i in range(o)]
    ltoks = common_toks + ['l%03d' % i for i in range(n - o)]
    rtoks = common_toks + ['r%03d' % i for i in range(k - o)]
    filler = [' '.join(common_toks)] * 2
    out = []
    for swap in (False, True):
        lvals, rvals = [' '.join(ltoks)] + filler, [' '.join(rtoks)]
        if swap:
            lvals, rvals = [' '.join(rtoks)] + filler, [' '.join(ltoks)]
        L = pd.DataFrame({'id': range(len(lvals)), 'attr': pd.Series(lvals, dtype=object)})
        R = pd.DataFrame({'id': range(len(rvals)), 'attr': pd.Series(rvals, dtype=object)})
        ts = O.TokSpec('ws', return_set=True)
        kw = {'comp_op': '>=', 'allow_missing': False, 'out_sim_score': True, 'n_jobs': 1, 'allow_empty': True}
        st = O.Stats()
        try:
            res = O.call_join(which, L, R, 'id', 'id', 'attr', 'attr', ts, t, kw)
            out += O.check_setsim_run(which, ts, L, R, 'id', 'id', 'attr', 'attr', t, kw, res, {'C01', 'C02'})
            if pid == 'C13':
                out += O.check_laws(which, ts, L, R, 'id', 'id', 'attr', 'attr', t, kw, random.Random(0))
        except Exception as e:      # noqa: BLE001
            out.append(O.viol('C15', 'valid join raised %s' % type(e).__name__, O.join_case(which, ts, L, R, 'id', 'id', 'attr', 'attr', t, kw)))
        if pid in ('C04', 'C14'):
            for kind in ('size', 'prefix', 'position', 'suffix'):
                f = O.FILTERS[kind](ts.obj, O.MEASURE_OF[which], t)
                ft = f.filter_tables(L, R, 'id', 'id', 'attr', 'attr', show_progress=False)
                if (0, 0) not in set(O.out_pairs(ft, 'l_id', 'r_id')) or f.filter_pair(lvals[0], rvals[0]):
                    out.append(O.viol('C04', '%sFilter drops a qualifying pair (arithmetic witness %s)' % (kind, (which, t, n, k, o)),
                                      O.filter_case(kind, {'measure': O.MEASURE_OF[which], 'threshold': t}, ts,
                                                    {'ltable': O.frame_to_case(L), 'rtable': O.frame_to_case(R), 'l_key': 'id', 'r_key': 'id', 'l_attr': 'attr', 'r_attr': 'attr'})))
    own = [x for x in out if x['property'] == pid]
    return own if own else [x for x in out if x['property'] in ('C01', 'C04')]


# ---------------------------------------------------------------- replay
def write_replay(pid, payload):
    d = os.path.join(VERIF, 'replays')
    os.makedirs(d, exist_ok=True)
    h = hashlib.sha256(json.dumps(payload, sort_keys=True, default=str).encode()).hexdigest()[:12]
    p = os.path.join(d, '%s-%s.json' % (pid, h))
    with open(p, 'w') as fh:
        json.dump(payload, fh, indent=1, default=str, ensure_ascii=False)
    return os.path.relpath(p, VERIF)


def do_replay(path):
    """re-run a stored failing input against the real code"""
    import oracle as O
    if not os.path.isabs(path) and not os.path.exists(path):
        path = os.path.join(VERIF, path)
    r = json.load(open(path))
    print('replay of %s: %s' % (r.get('property'), r.get('what')))
    if r.get('kind') == 'no-failing-input':
        print('this replay names the proof obligation / correspondence that no longer checks:')
        print(json.dumps(r.get('broken'), indent=1)[:3000])
        return 1
    v = r.get('violation') or {}
    case = v.get('case') or {}
    pid = r['property']
    try:
        if case.get('entry') == 'join' and case.get('which') != 'edit_distance' and v.get('oracle') in ('setsim', None) and not case.get('tokenizer_reconfigured'):
            ts, L, R, out = O.run_join_case(case)
            if True:
                vv = O.check_setsim_run(case['which'], ts, L, R, case['l_key'], case['r_key'], case['l_attr'], case['r_attr'], case['threshold'], case['kw'], out,
                                        {pid})
                vv = [x for x in vv if x['property'] == pid]
                print(out)
                print('violations reproduced: %d' % len(vv))
                for x in vv[:5]:
                    print('  ', x['what'], x.get('expected'), x.get('actual'))
                return 1 if vv else 0
        elif case.get('entry') == 'crash' and case.get('stage') == 'suite':
            # the generated input that made the package raise: re-generate the suite with the same PRNG state
            import suites as S
            st = O.Stats()
            spec = [sp for sp in PROPS[pid]['suites'] if sp[0] == case['name']][0]
            rng = random.Random('%s-%s-%d' % (pid, case['name'], v.get('seed', 0)))
            try:
                S.TokSpec.COUNTER = 0
                S.SUITES[case['name']](rng, case['n'], st, **(spec[3] if len(spec) > 3 else {}))
            except Exception as e:      # noqa: BLE001
                cv = package_crash(pid, 'suite', case['name'], case['n'], v.get('seed', 0), e)
                print('reproduced: %s' % (cv['what'] if cv else repr(e)))
                return 1
            print('the suite no longer raises')
            return 0
        else:
            # deterministic re-run of the oracle that found it
            st = O.Stats()
            os.environ['VERIF_SEED'] = str(v.get('seed', 0))
            tier0 = r.get('tier', 'quick')
            budget = dict((o[0], (o[1] * QUICK_SCALE if tier0 == 'quick' else o[2])) for o in PROPS[pid]['oracles']).get(v.get('oracle'), 1)
            vs, _ = run_oracles(pid, tier0, v.get('seed', 0), st, [], mult=max(1, int(v.get('n', 1)) // max(1, budget)))
            vs += [x for x in MALFORMED_VIOLATIONS + CRASH_VIOLATIONS]
            same = [x for x in vs if x['what'] == v.get('what')]
            print('violations reproduced by re-running oracle %s with seed %s: %d' % (v.get('oracle'), v.get('seed'), len(same)))
            return 1 if same else 0
    except Exception as e:     # noqa: BLE001
        print('replay raised %s: %s' % (type(e).__name__, e))
        return 1
    return 0


# ---------------------------------------------------------------- main
def main():
    args = sys.argv[1:]
    if '--replay' in args:
        sys.exit(do_replay(args[args.index('--replay') + 1]))
    if '--update-expected' in args:
        # maintenance only (never a MANIFEST command): record the property theorems that exist now
        exp = {}
        for pid in sorted(PROPS):
            r = build_and_audit(pid, 'quick', [])
            exp[pid] = sorted(r['theorems'])
            print(pid, len(exp[pid]), 'theorems', [x['kind'] for x in r['broken']])
        json.dump(exp, open(os.path.join(LEAN, 'expected_theorems.json'), 'w'), indent=1, sort_keys=True)
        sys.exit(0)
    pid, tier = args[0], (args[1] if len(args) > 1 else os.environ.get('VERIF_TIER', 'quick'))
    if pid not in PROPS or tier not in ('quick', 'thorough'):
        print('usage: check.py <C01..C17> <quick|thorough> | --replay FILE')
        sys.exit(2)
    seed = int(os.environ.get('VERIF_SEED', '0'))
    t_start = time.time()
    log, evidence_extra = [], {}
    from common import Stats
    stats = Stats()
    known = load_known()
    known_printed = {}
    try:
        b = build_and_audit(pid, tier, log)
        if b['broken'] and any(x['kind'] == 'model-build' for x in b['broken']) and not os.path.exists(os.path.join(LEAN, '.lake', 'build', 'bin', 'driver')):
            raise Infra('model does not build and no driver executable is available: ' + b['broken'][0]['detail'][-300:])
        if tier == 'thorough' and PROPS[pid].get('real_processes'):
            os.environ['REAL_PROCESSES'] = '0'      # entry-level suites stay in-process; the schedule oracle below uses real workers
        total, mism, per_suite = run_suites(pid, tier, seed, stats, log)
        corr_broken = []
        for m in mism:
            k = mismatch_known(m, known, pid)
            if k:
                known_printed[k['id']] = k
            else:
                corr_broken.append(m)
        known_hits = []
        viols, per_oracle = run_oracles(pid, tier, seed, stats, log, known_hits=known_hits)
        for x in MALFORMED_VIOLATIONS:
            x.update({'oracle': 'malformed-stream', 'seed': seed, 'n': 1})
        viols += MALFORMED_VIOLATIONS
        viols += CRASH_VIOLATIONS
        for prop, kid in known_hits:
            for k in known['findings']:
                if k['property'] == prop and k['id'] == kid:
                    known_printed[k['id']] = k
        real_viol = []
        for v in viols:
            k = match_known(v, known)
            if k:
                known_printed[k['id']] = k
            else:
                real_viol.append(v)
        broken = list(b['broken'])
        if corr_broken:
            broken.append({'kind': 'correspondence', 'detail': '%d mismatches; first in suite %s' % (len(corr_broken), corr_broken[0]['suite']),
                           'first': {k2: corr_broken[0][k2] for k2 in ('suite', 'request', 'model', 'real')}})
        searched = {}
        if pid == 'C12' and corr_broken and not real_viol:
            # §5-4 for C12: is the disagreement itself a history dependence?  Re-run each disagreeing join call in a FRESH
            # interpreter (no earlier call can have influenced it) and compare with what the long-running process returned.
            real_viol += fresh_process_check(corr_broken, seed)
        if broken and not real_viol:
            # §5: a proof obligation or the correspondence no longer checks — look for a concrete failing input on the real code
            log.append('tie broken (%s): searching the real code for a failing input' % ', '.join(sorted(set(x['kind'] for x in broken))))
            if PROPS[pid].get('arith'):
                ws = arithmetic_witness_search(pid, tier, stats)
                searched['arithmetic_witnesses'] = ws
                for w in ws:
                    real_viol += [x for x in witness_to_violation(pid, w) if not match_known(x, known)]
                    if real_viol:
                        break
            if not real_viol:
                for extra_seed in range(1, 4 if tier == 'quick' else 8):
                    vs, _ = run_oracles(pid, tier, seed + 1000 * extra_seed, stats, log, mult=2)
                    real_viol += [x for x in vs if not match_known(x, known)]
                    if real_viol:
                        break
                searched['extra_oracle_rounds'] = extra_seed
            if not real_viol and corr_broken:
                # §5-4: is the disagreement itself a failing input?  re-run the oracle machinery on nothing new; report the diff
                searched['correspondence_first'] = corr_broken[0]['suite']
        wall = time.time() - t_start
        for k in known_printed.values():
            print('KNOWN-FINDING: property=%s %s%s' % (pid, '' if k['property'] == pid else '(%s of %s) ' % (k['id'], k['property']), k['what']))
        status = 0
        replay = None
        if real_viol:
            v0 = real_viol[0]
            replay = write_replay(pid, {'property': pid, 'tier': tier, 'kind': 'failing-input', 'what': v0['what'], 'violation': v0,
                                        'n_violations': len(real_viol), 'broken': broken, 'how': 'tools/check.py --replay <this file>'})
            print('VIOLATION property=%s replay=%s' % (pid, replay))
            print('  %s' % v0['what'])
            status = 1
        elif broken:
            replay = write_replay(pid, {'property': pid, 'kind': 'no-failing-input', 'what': 'proof obligation or correspondence no longer checks',
                                        'broken': broken, 'searched': searched})
            print('VIOLATION property=%s replay=%s no-failing-input-found' % (pid, replay))
            for x in broken[:3]:
                print('  %s: %s' % (x['kind'], str(x['detail'])[:300]))
            status = 1
        # ---------------- evidence
        n_th = len(b['theorems'])
        discharged = n_th if b['build_ok'] and not any(x['kind'] in ('proof-build', 'axiom-audit', 'forbidden-token', 'leanchecker', 'genloops-proof', 'translator-stage2', 'missing-theorem') for x in b['broken']) else 0
        t2 = b.get('translator2') or {}
        distinct_nontrivial = sum(min(p['distinct'], p['nontrivial']) for p in per_suite.values())
        samples = [{'suite': n2, 'request': p['sample']} for n2, p in per_suite.items() if p['sample'] is not None][:3]
        samples += [{'theorem': th, 'axioms': b['axioms'].get(th)} for th in b['theorems'][:40]]
        ev = {
            'property_id': pid, 'tier': tier, 'seed': seed, 'level': 'proof',
            'coverage': {
                'obligations': max(n_th, 1), 'discharged': discharged,
                'checker_cmd': 'cd lean && lake build %s%s && lake env lean <#print axioms of every theorem of namespace SSJ.Props.%s>%s' % (
                    ' '.join(prop_modules(pid)), ' SSJ.Proofs.GenLoops SSJ.Proofs.GenLoops2 SSJ.Proofs.GenLoops3' if pid in GENLOOPS_PROPS else '', pid,
                    ' && lake env leanchecker <the same modules>' if tier == 'thorough' else ''),
                'trusted_base': ['Lean 4.33 kernel' + (' + leanchecker re-check' if tier == 'thorough' else ''),
                                 'axioms: propext, Classical.choice, Quot.sound only (audited per theorem inside Lean; ' + ('result cached from an earlier run on exactly this tree: build_cached=true' if b['cached'] else 'this run') + ')',
                                 'tools/py2lean.py + lean/SSJ/Py/{Val,F64}.lean (semantics of the translated subset; validated by suite gen/f64)',
                                 'tools/py2lean2.py (41 loop functions -> Gen/Loops.lean, Loops2.lean, Loops3.lean; idiom table of tools/translator_tests/NOTES.md; its output is proved equal to the hand model in Proofs/GenLoops.lean, GenLoops2.lean, GenLoops3.lean)',
                                 'hand-written model lean/SSJ/Model/*.lean (validated by the correspondence suites of this run)',
                                 'pandas / joblib / py_stringmatching / CPython float semantics are modelled, not verified (DESIGN §8)'],
                'theorems': b['theorems'], 'axioms': b['axioms'], 'build_cached': b['cached'],
                'programs': len((b['translator'] or {}).get('functions', [])) + len(t2.get('functions', []) if pid in GENLOOPS_PROPS else []),
                'translated_functions': (b['translator'] or {}).get('functions', []),
                'translated_loop_functions': {'used_by_this_property': pid in GENLOOPS_PROPS, 'functions': t2.get('functions', []), 'error': t2.get('error'),
                                              'equality_with_model': 'lean/SSJ/Proofs/GenLoops.lean + GenLoops2.lean + GenLoops3.lean (SSJ.Gen2.*_eq: 41 functions), ' + ('build result cached for exactly this tree' if b['cached'] else 'rebuilt this run') if pid in GENLOOPS_PROPS else None},
                'evaluations': total + sum(p['cases'] for p in per_oracle.values()),
                'distinct_nontrivial': distinct_nontrivial,
                'rule': 'correspondence cases are generated from one PRNG (VERIF_SEED); distinct = distinct request JSON; non-trivial = the real code '
                        'returned a non-empty frame/list or raised; oracle cases are counted in evaluations only',
                'disagreements_checked': len(mism),
                'correspondence': per_suite, 'oracle': per_oracle, 'input_distribution': stats.c,
                'samples': samples,
                'known_findings_hit': sorted(known_printed), 'broken': [x['kind'] for x in broken], 'log': log,
                'exhaustive': False,
            },
            'assumptions': ['theorem hypotheses (set measures): threshold the int 1 or a double in [2^-989, 1] (cosine: [2^-495, 1]) in the *_wide theorems, [2^-20, 1] in the original ones; token-set sizes < 2^32, right table < 2^40 rows, set tokenizer returns duplicate-free lists',
                            'joblib returns results in job order and workers share nothing (quick tier runs the chunked path in-process)',
                            'a present join value that is not a string makes model and code raise TypeError (modelled since the review); acceptance theorems assume string-or-missing join columns and no output column named _id (BodyOK)',
                            'NaN thresholds are outside the value model PyV (tested on the real code by oracle_validation only)'],
            'wall_s': round(wall, 1), 'violations': len(real_viol) + (1 if (broken and not real_viol) else 0),
        }
        # SSJ_EVIDENCE_DIR: only set by tools/run_seeded_all.py / run_against_seeded.sh, so that runs against a deliberately
        # broken tree do not overwrite the evidence of /repo itself
        ev_dir = os.environ.get('SSJ_EVIDENCE_DIR') or os.path.join(VERIF, 'evidence')
        os.makedirs(ev_dir, exist_ok=True)
        json.dump(ev, open(os.path.join(ev_dir, pid + '.json'), 'w'), indent=1, default=str, ensure_ascii=False)
        if status == 0:
            print('OK property=%s tier=%s theorems=%d/%d correspondence=%d cases oracle=%d cases wall=%.0fs' %
                  (pid, tier, discharged, n_th, total, sum(p['cases'] for p in per_oracle.values()), wall))
        sys.exit(status)
    except SystemExit:
        raise
    except (Infra, subprocess.TimeoutExpired) as e:
        print('INFRASTRUCTURE-FAILURE property=%s: %s' % (pid, str(e)[:500]))
        sys.exit(2)
    except Exception as e:      # noqa: BLE001
        traceback.print_exc()
        print('INFRASTRUCTURE-FAILURE property=%s: %s: %s' % (pid, type(e).__name__, str(e)[:300]))
        sys.exit(2)


if __name__ == '__main__':
    main()

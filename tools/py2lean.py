#!/usr/bin/env python3
"""py2lean — translate the numeric / decision kernel of py_stringsimjoin into Lean 4.

The translation is purely syntactic: every Python operator becomes the `PyV` operation of the
same name (lean/SSJ/Py/Val.lean), which carries CPython's int/float coercions, so no type
inference can go wrong silently.  Anything outside the accepted subset raises `Untranslatable`
with the source location; the caller treats that as "tie broken" (never as a violation by
itself).

Usage: py2lean.py <repo_root> <out_dir>      (writes <out_dir>/FilterUtils.lean, Validation.lean,
                                              Helper.lean and prints a JSON summary)
"""
import ast
import hashlib
import json
import os
import sys
from fractions import Fraction


class Untranslatable(Exception):
    pass


BINOPS = {ast.Add: 'add', ast.Sub: 'sub', ast.Mult: 'mul', ast.Div: 'div'}
CMPOPS = {ast.Eq: 'eqb', ast.NotEq: 'neb', ast.Lt: 'ltb', ast.LtE: 'leb', ast.Gt: 'gtb', ast.GtE: 'geb'}
CALL1 = {'ceil': 'ceil', 'floor': 'floor', 'sqrt': 'sqrt', 'int': 'toInt', 'float': 'toFloat', 'abs': 'abs'}
CONST_NAMES = {'maxsize': '(PyV.int 9223372036854775807)'}
RAISES = {'AssertionError': 'assertion', 'TypeError': 'typeErr'}


def loc(node, fname):
    return '%s:%s' % (fname, getattr(node, 'lineno', '?'))


class Tr:
    def __init__(self, fname, attr_params=None, call_params=None, consts=None):
        self.fname = fname
        # x.attr -> parameter name  (e.g. tokenizer.qval -> tokenizer_qval)
        self.attr_params = attr_params or {}
        # f(args) -> parameter name (e.g. multiprocessing.cpu_count() -> cpu_count, len(table) -> len_table)
        self.call_params = call_params or {}
        self.consts = dict(CONST_NAMES)
        self.list_vars = {}
        if consts:
            self.consts.update(consts)

    def fail(self, node, why):
        raise Untranslatable('%s: %s: %s' % (loc(node, self.fname), why, ast.dump(node)[:200]))

    # ---- expressions of type PyV -------------------------------------------------------
    def ex(self, e):
        if isinstance(e, ast.Constant):
            v = e.value
            if isinstance(v, bool):
                return '(PyV.bool %s)' % ('true' if v else 'false')
            if isinstance(v, int):
                return '(PyV.int %d)' % v if v >= 0 else '(PyV.int (%d))' % v
            if isinstance(v, float):
                fr = Fraction(v)
                return '(PyV.float ((%d : Rat) / %d))' % (fr.numerator, fr.denominator)
            if isinstance(v, str):
                return '(PyV.str %s)' % json.dumps(v, ensure_ascii=False)
            if v is None:
                return 'PyV.none'
            self.fail(e, 'constant')
        if isinstance(e, ast.Name):
            if e.id in self.consts:
                return self.consts[e.id]
            return e.id
        if isinstance(e, ast.Attribute) and isinstance(e.value, ast.Name):
            key = '%s.%s' % (e.value.id, e.attr)
            if key in self.attr_params:
                return self.attr_params[key]
            self.fail(e, 'attribute')
        if isinstance(e, ast.BinOp):
            if type(e.op) not in BINOPS:
                self.fail(e, 'binary operator')
            return '(PyV.%s %s %s)' % (BINOPS[type(e.op)], self.ex(e.left), self.ex(e.right))
        if isinstance(e, ast.UnaryOp) and isinstance(e.op, ast.USub):
            return '(PyV.sub (PyV.int 0) %s)' % self.ex(e.operand)
        if isinstance(e, ast.Call):
            src = ast.unparse(e)
            if src in self.call_params:
                return self.call_params[src]
            if isinstance(e.func, ast.Name) and not e.keywords:
                f = e.func.id
                a = [self.ex(x) for x in e.args]
                if f in CALL1 and len(a) == 1:
                    return '(PyV.%s %s)' % (CALL1[f], a[0])
                if f == 'round' and len(a) == 2:
                    return '(PyV.round %s %s)' % (a[0], a[1])
                if f == 'round' and len(a) == 1:
                    return '(PyV.round0 %s)' % a[0]
                if f in ('min', 'max') and len(a) == 2:
                    return '(PyV.%s %s %s)' % (f, a[0], a[1])
            if (isinstance(e.func, ast.Attribute) and e.func.attr == 'upper' and not e.args):
                return '(PyV.upper %s)' % self.ex(e.func.value)
            self.fail(e, 'call')
        if isinstance(e, (ast.Compare, ast.BoolOp)) or (isinstance(e, ast.UnaryOp) and isinstance(e.op, ast.Not)):
            return '(PyV.bool %s)' % self.cond(e)
        self.fail(e, 'expression')

    # ---- conditions of type Bool -------------------------------------------------------
    def cond(self, e):
        if isinstance(e, ast.Compare):
            parts = []
            left = e.left
            for op, right in zip(e.ops, e.comparators):
                if type(op) in CMPOPS:
                    parts.append('(PyV.%s %s %s)' % (CMPOPS[type(op)], self.ex(left), self.ex(right)))
                elif isinstance(op, (ast.In, ast.NotIn)):
                    items = self.member_list(right)
                    t = '(List.any [%s] (fun x_ => PyV.eqb %s x_))' % (', '.join(items), self.ex(left))
                    parts.append(t if isinstance(op, ast.In) else '(!%s)' % t)
                else:
                    self.fail(e, 'comparison operator')
                left = right
            return parts[0] if len(parts) == 1 else '(' + ' && '.join(parts) + ')'
        if isinstance(e, ast.BoolOp):
            j = ' && ' if isinstance(e.op, ast.And) else ' || '
            return '(' + j.join(self.cond(v) for v in e.values) + ')'
        if isinstance(e, ast.UnaryOp) and isinstance(e.op, ast.Not):
            return '(!%s)' % self.cond(e.operand)
        return '(PyV.truthy %s)' % self.ex(e)

    def member_list(self, e):
        if isinstance(e, (ast.List, ast.Tuple)):
            return [self.ex(x) for x in e.elts]
        if isinstance(e, ast.Name) and e.id in self.list_vars:
            return self.list_vars[e.id]
        src = ast.unparse(e)
        if src in self.call_params:           # e.g. COMP_OP_MAP.keys()
            v = self.call_params[src]
            if isinstance(v, list):
                return v
        self.fail(e, 'membership container')

    # ---- statements -------------------------------------------------------------------
    def body(self, stmts, ind):
        pad = ' ' * ind
        if not stmts:
            return pad + 'PyV.none'
        s, rest = stmts[0], stmts[1:]
        if isinstance(s, ast.Expr) and isinstance(s.value, ast.Constant) and isinstance(s.value.value, str):
            return self.body(rest, ind)                      # docstring
        if isinstance(s, ast.Pass):
            return self.body(rest, ind)
        if isinstance(s, ast.Return):
            return pad + (self.ex(s.value) if s.value is not None else 'PyV.none')
        if isinstance(s, ast.Raise):
            exc = s.exc
            name = exc.func.id if isinstance(exc, ast.Call) and isinstance(exc.func, ast.Name) else \
                (exc.id if isinstance(exc, ast.Name) else None)
            if name not in RAISES:
                self.fail(s, 'raise')
            return pad + '(PyV.err PyErr.%s)' % RAISES[name]
        if (isinstance(s, ast.Assign) and len(s.targets) == 1 and isinstance(s.targets[0], ast.Name)
                and isinstance(s.value, (ast.List, ast.Tuple))):
            # a literal list used only for membership tests: remembered, not emitted
            self.list_vars[s.targets[0].id] = [self.ex(x) for x in s.value.elts]
            return self.body(rest, ind)
        if isinstance(s, ast.Assign) and len(s.targets) == 1 and isinstance(s.targets[0], ast.Name):
            return pad + 'let %s := %s\n' % (s.targets[0].id, self.ex(s.value)) + self.body(rest, ind)
        if isinstance(s, ast.If):
            # continuation: a branch that does not end in return/raise falls through to `rest`
            then_b = s.body if self.terminates(s.body) else s.body + rest
            else_b = s.orelse if self.terminates(s.orelse) else s.orelse + rest
            return (pad + 'if %s then\n' % self.cond(s.test) + self.body(then_b, ind + 2) + '\n' +
                    pad + 'else\n' + self.body(else_b, ind + 2))
        self.fail(s, 'statement')

    def terminates(self, stmts):
        if not stmts:
            return False
        last = stmts[-1]
        if isinstance(last, (ast.Return, ast.Raise)):
            return True
        if isinstance(last, ast.If):
            return self.terminates(last.body) and self.terminates(last.orelse)
        return False

    def fundef(self, f, rename_args=None, extra_params=()):
        rename_args = rename_args or {}
        args = []
        for a in f.args.args:
            args.append(rename_args.get(a.arg, a.arg))
        args = [a for a in args if a is not None] + list(extra_params)
        largs = ' '.join('(%s : PyV)' % a for a in args)
        return 'def %s %s : PyV :=\n%s\n' % (f.name, largs, self.body(f.body, 2))


def functions(tree):
    return {f.name: f for f in tree.body if isinstance(f, ast.FunctionDef)}


HEADER = """/- GENERATED by tools/py2lean.py from %s (sha256 %s) — do not edit.
   Regenerated from the working tree of /repo on every run of a check. -/
import SSJ.Py.Val
namespace SSJ.Gen
open SSJ

"""


def gen_filter_utils(repo):
    rel = 'py_stringsimjoin/filter/filter_utils.py'
    src = open(os.path.join(repo, rel)).read()
    tree = ast.parse(src)
    tr = Tr(rel, attr_params={'tokenizer.qval': 'tokenizer_qval'})
    fs = functions(tree)
    out = [HEADER % (rel, hashlib.sha256(src.encode()).hexdigest())]
    names = ['get_size_lower_bound', 'get_size_upper_bound', 'get_prefix_length', 'get_overlap_threshold']
    for n in names:
        if n not in fs:
            raise Untranslatable('%s: function %s not found' % (rel, n))
        out.append(tr.fundef(fs[n], rename_args={'tokenizer': 'tokenizer_qval'}))
    out.append('end SSJ.Gen\n')
    return 'FilterUtils.lean', ''.join(o if o.endswith('\n') else o + '\n' for o in out), names, rel, src


def comp_op_keys(repo):
    """keys of COMP_OP_MAP, read from the source of generic_helper.py (dict display of constants)"""
    rel = 'py_stringsimjoin/utils/generic_helper.py'
    tree = ast.parse(open(os.path.join(repo, rel)).read())
    for s in tree.body:
        if isinstance(s, ast.Assign) and isinstance(s.targets[0], ast.Name) and s.targets[0].id == 'COMP_OP_MAP':
            if not isinstance(s.value, ast.Dict):
                raise Untranslatable(rel + ': COMP_OP_MAP is not a dict display')
            keys, vals = [], []
            for k, v in zip(s.value.keys, s.value.values):
                if not (isinstance(k, ast.Constant) and isinstance(k.value, str)):
                    raise Untranslatable(rel + ': COMP_OP_MAP key')
                if not (isinstance(v, ast.Attribute) and isinstance(v.value, ast.Name) and v.value.id == 'operator'):
                    raise Untranslatable(rel + ': COMP_OP_MAP value')
                keys.append(k.value)
                vals.append(v.attr)
            return keys, vals
    raise Untranslatable(rel + ': COMP_OP_MAP not found')


def gen_validation(repo):
    rel = 'py_stringsimjoin/utils/validation.py'
    src = open(os.path.join(repo, rel)).read()
    tree = ast.parse(src)
    keys, vals = comp_op_keys(repo)
    tr = Tr(rel, call_params={'COMP_OP_MAP.keys()': ['(PyV.str %s)' % json.dumps(k) for k in keys]})
    fs = functions(tree)
    out = [HEADER % (rel + ' + utils/generic_helper.py COMP_OP_MAP', hashlib.sha256(src.encode()).hexdigest())]
    names = ['validate_threshold', 'validate_comp_op_for_sim_measure', 'validate_comp_op',
             'validate_sim_measure_type']
    for n in names:
        if n not in fs:
            raise Untranslatable('%s: function %s not found' % (rel, n))
        out.append(tr.fundef(fs[n]))
    # COMP_OP_MAP as a Lean function: operator name -> comparison
    opmap = {'ge': 'geb', 'gt': 'gtb', 'le': 'leb', 'lt': 'ltb', 'eq': 'eqb', 'ne': 'neb'}
    lines = ['/-- COMP_OP_MAP of utils/generic_helper.py: `none` = key absent -/',
             'def comp_op_map (op : String) : Option (PyV → PyV → Bool) :=']
    chain = ''
    for k, v in zip(keys, vals):
        if v not in opmap:
            raise Untranslatable('COMP_OP_MAP value operator.%s' % v)
        chain += '  if op == %s then some PyV.%s else\n' % (json.dumps(k), opmap[v])
    lines.append(chain + '  Option.none\n')
    out.append('\n'.join(lines))
    out.append('end SSJ.Gen\n')
    return 'Validation.lean', ''.join(o if o.endswith('\n') else o + '\n' for o in out), names + ['comp_op_map'], rel, src


def gen_helper(repo):
    rel = 'py_stringsimjoin/utils/generic_helper.py'
    src = open(os.path.join(repo, rel)).read()
    tree = ast.parse(src)
    fs = functions(tree)
    out = [HEADER % (rel, hashlib.sha256(src.encode()).hexdigest())]
    names = []
    # get_num_processes_to_launch(n_jobs) with the CPU count as a parameter
    tr = Tr(rel, call_params={'multiprocessing.cpu_count()': 'cpu_count'})
    if 'get_num_processes_to_launch' not in fs:
        raise Untranslatable(rel + ': get_num_processes_to_launch not found')
    out.append(tr.fundef(fs['get_num_processes_to_launch'], extra_params=['cpu_count']))
    names.append('get_num_processes_to_launch')
    # split_table: split_size expression and the two slice bounds of the loop body
    f = fs.get('split_table')
    if f is None:
        raise Untranslatable(rel + ': split_table not found')
    body = [s for s in f.body if not (isinstance(s, ast.Expr) and isinstance(s.value, ast.Constant))]
    ok = (len(body) == 4 and isinstance(body[0], ast.Assign) and isinstance(body[1], ast.Assign)
          and isinstance(body[2], ast.For) and isinstance(body[3], ast.Return))
    if ok:
        a0, a1, loop, ret = body
        ok = (ast.unparse(a0) == 'splits = []' and isinstance(a1.targets[0], ast.Name)
              and a1.targets[0].id == 'split_size' and ast.unparse(ret) == 'return splits'
              and isinstance(loop.target, ast.Name)
              and ast.unparse(loop.iter) in ('xrange(num_splits)', 'range(num_splits)')
              and len(loop.body) == 1 and not loop.orelse)
    if ok:
        st = loop.body[0]
        ok = (isinstance(st, ast.Expr) and isinstance(st.value, ast.Call)
              and ast.unparse(st.value.func) == 'splits.append' and len(st.value.args) == 1
              and isinstance(st.value.args[0], ast.Subscript)
              and ast.unparse(st.value.args[0].value) == 'table'
              and isinstance(st.value.args[0].slice, ast.Slice)
              and st.value.args[0].slice.step is None
              and st.value.args[0].slice.lower is not None and st.value.args[0].slice.upper is not None)
    if not ok:
        raise Untranslatable(rel + ':split_table: body is not `splits=[]; split_size=E; for i in xrange(num_splits): '
                             'splits.append(table[LO:HI]); return splits`')
    tr2 = Tr(rel, call_params={'len(table)': 'len_table'})
    ivar = loop.target.id
    sl = st.value.args[0].slice
    out.append('def split_table_split_size (num_splits len_table : PyV) : PyV :=\n  %s\n' % tr2.ex(a1.value))
    out.append('def split_table_lo (%s split_size : PyV) : PyV :=\n  %s\n' % (ivar, tr2.ex(sl.lower)))
    out.append('def split_table_hi (%s split_size : PyV) : PyV :=\n  %s\n' % (ivar, tr2.ex(sl.upper)))
    names += ['split_table_split_size', 'split_table_lo', 'split_table_hi']
    out.append('end SSJ.Gen\n')
    return 'Helper.lean', ''.join(o if o.endswith('\n') else o + '\n' for o in out), names, rel, src


def main():
    repo, outdir = sys.argv[1], sys.argv[2]
    os.makedirs(outdir, exist_ok=True)
    summary = {'files': [], 'functions': [], 'error': None}
    try:
        for g in (gen_filter_utils, gen_validation, gen_helper):
            fname, text, names, rel, src = g(repo)
            path = os.path.join(outdir, fname)
            old = open(path).read() if os.path.exists(path) else None
            if old != text:
                with open(path, 'w') as fh:
                    fh.write(text)
            summary['files'].append({'lean': fname, 'source': rel,
                                     'sha256': hashlib.sha256(src.encode()).hexdigest(),
                                     'changed': old != text})
            summary['functions'] += names
    except (Untranslatable, SyntaxError, OSError) as e:
        summary['error'] = str(e)
        print(json.dumps(summary))
        sys.exit(3)
    print(json.dumps(summary))


if __name__ == '__main__':
    main()

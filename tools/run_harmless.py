#!/usr/bin/env python3
"""run_harmless.py [ids...] : the opposite of run_seeded_all.py — apply each change in harmless/*.diff (rewrites of /repo under
which every property still holds) in a scratch worktree and run the quick checks of the properties named in
harmless/INDEX.json.  A check may answer OK (exit 0) or — when the rewrite breaks a proof obligation / the correspondence —
`VIOLATION … no-failing-input-found` (the brief's rule for a property no longer shown to hold); what it must NEVER do is
report a concrete failing input.  Writes harmless/RESULTS.md."""
import json, os, subprocess, sys, tempfile, shutil

VERIF = os.path.dirname(os.path.dirname(os.path.abspath(__file__)))
H = os.path.join(VERIF, 'harmless')


def run(cmd, **kw):
    return subprocess.run(cmd, stdout=subprocess.PIPE, stderr=subprocess.STDOUT, text=True, **kw)


def main():
    index = json.load(open(os.path.join(H, 'INDEX.json')))
    only = set(sys.argv[1:])
    root = tempfile.mkdtemp(prefix='ssj-harmless-')
    lines, bad = [], []
    for hid, meta in sorted(index.items()):
        if only and hid.split('-')[0] not in only and hid not in only:
            continue
        wt = os.path.join(root, hid)
        run(['git', '-C', '/repo', 'worktree', 'add', '--detach', wt, 'HEAD'])
        try:
            r = run(['git', '-C', wt, 'apply', os.path.join(H, hid + '.diff')])
            if r.returncode != 0:
                lines.append('| %s | | | patch does not apply |' % hid); bad.append(hid); continue
            for p in meta['properties']:
                for seed in ('0', '1'):
                    env = dict(os.environ, SSJ_REPO=wt, SSJ_EVIDENCE_DIR=os.path.join(root, 'evidence'), VERIF_SEED=seed)
                    r = run([os.path.join(VERIF, 'tools', 'check.py'), p, 'quick'], env=env, cwd=VERIF)
                    out = [l for l in r.stdout.splitlines() if not l.startswith('KNOWN-FINDING')]
                    vio = [l for l in out if l.startswith('VIOLATION')]
                    concrete = [l for l in vio if not l.rstrip().endswith('no-failing-input-found')]
                    verdict = 'OK' if r.returncode == 0 else ('obligation broken, no failing input (allowed)' if vio and not concrete else 'FALSE ALARM')
                    if verdict == 'FALSE ALARM':
                        bad.append('%s/%s/seed%s' % (hid, p, seed))
                    print(hid, p, 'seed', seed, 'exit', r.returncode, verdict, (vio or [''])[0], flush=True)
                    lines.append('| %s | %s | %s | %d | %s |' % (hid, p, seed, r.returncode, verdict))
        finally:
            run(['git', '-C', '/repo', 'worktree', 'remove', '--force', wt])
    run(['git', '-C', '/repo', 'worktree', 'prune'])
    shutil.rmtree(root, ignore_errors=True)
    run([sys.executable, os.path.join(VERIF, 'tools', 'py2lean.py'), '/repo', os.path.join(VERIF, 'lean', 'SSJ', 'Gen')], cwd=VERIF)
    run([sys.executable, os.path.join(VERIF, 'tools', 'py2lean2.py'), '/repo', os.path.join(VERIF, 'lean', 'SSJ', 'Gen')], cwd=VERIF)
    if not only:
        with open(os.path.join(H, 'RESULTS.md'), 'w') as f:
            f.write('# Quick checks against harmless rewrites of /repo (tools/run_harmless.py)\n\n| change | property | seed | exit | verdict |\n|---|---|---|---|---|\n')
            f.write('\n'.join(lines) + '\n')
    print('false alarms:', bad)
    sys.exit(1 if bad else 0)


if __name__ == '__main__':
    main()

#!/usr/bin/env python3
"""py2lean2 — stage-2 translator: the small LOOP-based helpers of py_stringsimjoin into TYPED Lean 4
`do`-notation (`Id.run do … let mut … for x in xs do … if c then continue …`).

Unlike stage 1 (py2lean.py: pure expressions over the dynamically typed `PyV` domain) the output here
is typed.  The Lean types of parameters and locals are NOT inferred: they come from the per-function
table `SPECS` below (the same typing the hand model uses).  The statements are translated one by one
through the small table of idioms implemented by `Tr.expr` / `Tr.stmt`; every expression is
type-checked against the table on the way (so a swapped argument, a changed operator or a dropped
statement either changes the generated Lean or is rejected).  ANY construct outside the table raises
`Untranslatable` with the source location (exit code 3).  Nothing is guessed.

Usage: py2lean2.py <repo_root> <out_dir>     writes <out_dir>/Loops.lean (stage 2: loop helpers) and
                                             <out_dir>/Loops2.lean (stage 3: suffix filter, filter_pair,
                                             find_candidates, index builders, per-chunk join / filter workers,
                                             missing-value pairs) and <out_dir>/Loops3.lean (stage 4: functions
                                             that may raise — matcher split, generate_tokens, filter_candset
                                             split, profiler — in `Except PyErr`), prints a JSON summary.
       exit 0 = ok, 2 = usage, 3 = construct outside the accepted subset / missing source.
The output is a pure function of the sources: regenerating from unchanged sources is byte-identical.
Proof obligations: SSJ/Proofs/GenLoops.lean, GenLoops2.lean, GenLoops3.lean (`lake build SSJ.Proofs.GenLoops3`).
"""
import ast
import hashlib
import json
import os
import sys


class Untranslatable(Exception):
    pass


# ------------------------------------------------------------------------------------------------
# types
# ------------------------------------------------------------------------------------------------
# atoms: 'Nat' 'Int' 'Bool' 'String' 'Cell' 'Row' (= List Cell, indexed with Row.cell)
# records: 'InvIndex' 'PosIndex' 'FilterObj'
# ('List', T)  ('Option', T)  ('Dict', K, V)  ('Prod', A, B)
def L(t):
    return ('List', t)


def O(t):
    return ('Option', t)


def D(k, v):
    return ('Dict', k, v)


def P(a, b):
    return ('Prod', a, b)


def T(*ts):
    """n-ary tuple = right-nested pairs"""
    return ts[0] if len(ts) == 1 else P(ts[0], T(*ts[1:]))


def Fn(args, ret):
    return ('Fn', tuple(args), ret)


def lean_type(t, top=True):
    if isinstance(t, str):
        return t
    k = t[0]
    if k == 'Fn':
        s = ' → '.join([lean_type(a, False) for a in t[1]] + [lean_type(t[2], False)])
        return s if top else '(%s)' % s
    if k == 'Except':
        s = 'Except PyErr %s' % lean_type(t[1], False)
        return s if top else '(%s)' % s
    if k == 'List':
        s = 'List %s' % lean_type(t[1], False)
    elif k == 'Option':
        s = 'Option %s' % lean_type(t[1], False)
    elif k == 'Dict':
        s = 'List (%s × %s)' % (lean_type(t[1]), lean_type(t[2]))
    elif k == 'Prod':
        s = '%s × %s' % (lean_type(t[1], False), lean_type(t[2], False))
    elif k == 'Set':            # a Python set, only ever measured with len: a duplicate-free list
        s = 'List %s' % lean_type(t[1], False)
    else:
        raise AssertionError(t)
    return s if top else '(%s)' % s


def default_of(t):
    """value used for hoisted declarations and narrowed `Option.getD` (never observable when the
    Python program does not raise: see NOTES.md)"""
    if t in ('Nat', 'Int', 'Rat'):
        return '0'
    if t in ('τ', 'NumTok'):
        return 'default'
    if isinstance(t, tuple) and t[0] == 'Fn':
        return '(fun %s=> %s)' % ('_ ' * len(t[1]), default_of(t[2]))
    if t == 'Bool':
        return 'false'
    if t == 'String':
        return '""'
    if t == 'Cell':
        return 'Cell.missing'
    if t == 'PyV':
        return 'PyV.none'
    if t == 'SimArg':
        return '(SimArg.raw Cell.missing)'
    if t == 'Row':
        return '[]'
    if isinstance(t, tuple):
        if t[0] in ('List', 'Dict', 'Set'):
            return '[]'
        if t[0] == 'Option':
            return 'none'
        if t[0] == 'Prod':
            return '(%s, %s)' % (default_of(t[1]), default_of(t[2]))
    raise AssertionError(t)


def elem_type(t):
    if t == 'Row':
        return 'Cell'
    if isinstance(t, tuple) and t[0] == 'List':
        return t[1]
    if isinstance(t, tuple) and t[0] == 'Dict':      # only via list(d.items())
        return None
    return None


def is_mutable_type(t):
    return t == 'Row' or (isinstance(t, tuple) and t[0] in ('List', 'Dict', 'Set'))


# record attributes:  (record type, python attribute) -> (lean projection, type)
ATTRS = {
    ('SizeIndex', 'index'): ('index', D('Nat', L('Nat'))),
    ('SizeIndex', 'min_length'): ('minLength', 'Int'),
    ('SizeIndex', 'max_length'): ('maxLength', 'Int'),
    ('PrefIndex', 'index'): ('index', D('Nat', L('Nat'))),
    ('FilterObj', 'allow_missing'): ('allowMissing', 'Bool'),
    ('FilterObj', 'allow_empty'): ('allowEmpty', 'Bool'),
    ('FilterObj', 'sim_measure_type'): ('cfg.measure', 'Measure'),
    ('OverlapFilterObj', 'allow_missing'): ('allowMissing', 'Bool'),
    ('OverlapFilterObj', 'comp_op'): ('compOp', 'String'),
    ('OverlapFilterObj', 'overlap_size'): ('overlapSize', 'PyV'),
    ('InvIndex', 'index'): ('index', D('String', L('Nat'))),
    ('InvIndex', 'size_cache'): ('sizeCache', L('Nat')),
    ('PosIndex', 'index'): ('index', D('Nat', L(P('Nat', 'Nat')))),
    ('PosIndex', 'size_cache'): ('sizeCache', L('Nat')),
    ('PosIndex', 'min_length'): ('minLength', 'Int'),
    ('PosIndex', 'max_length'): ('maxLength', 'Int'),
}

# record methods: (record type, method) -> (python file, class, expected source of the method body,
#                                            lean template, arg types, result type)
# The translator re-parses the method and insists its body is exactly the expected one-liner.
METHODS = {
    # the size index is keyed by token counts (Nat); `find_candidates` probes it with ints that may be negative
    ('SizeIndex', 'probe'): ('py_stringsimjoin/index/size_index.py', 'SizeIndex',
                             'return self.index.get(num_tokens, [])',
                             'if {0} < 0 then [] else probe {recv}.index ({0}).toNat', ['Int'], L('Nat')),
    ('PrefIndex', 'probe'): ('py_stringsimjoin/index/prefix_index.py', 'PrefixIndex',
                             'return self.index.get(token, [])',
                             'probe {recv}.index {0}', ['Nat'], L('Nat')),
    ('InvIndex', 'probe'): ('py_stringsimjoin/index/inverted_index.py', 'InvertedIndex',
                            'return self.index.get(token, [])',
                            'probe {recv}.index {0}', ['String'], L('Nat')),
    ('PosIndex', 'probe'): ('py_stringsimjoin/index/position_index.py', 'PositionIndex',
                            'return self.index.get(token, [])',
                            'probe {recv}.index {0}', ['Nat'], L(P('Nat', 'Nat'))),
}

# calls of the (stage-1 generated) filter_utils functions on a filter object `self : FilterObj`:
#   name -> (number of leading Nat arguments, required trailing arguments, lean field of FCfg, result)
FILTER_UTILS = 'py_stringsimjoin.filter.filter_utils'
CFG_CALLS = {
    'get_size_lower_bound': (1, ['self.sim_measure_type', 'self.threshold'], 'lower', 'Int'),
    'get_size_upper_bound': (1, ['self.sim_measure_type', 'self.threshold'], 'upper', 'Int'),
    'get_prefix_length': (1, ['self.sim_measure_type', 'self.threshold', 'self.tokenizer'], 'prefixLen', 'Int'),
    'get_overlap_threshold': (2, ['self.sim_measure_type', 'self.threshold', 'self.tokenizer'], 'ovThr', 'Int'),
}

# fields of the record a function may return:  record -> [(lean field, type)]
RECORD_FIELDS = {
    'SizeIndex': [('index', D('Nat', L('Nat'))), ('minLength', 'Int'), ('maxLength', 'Int'),
                  ('emptyRecords', L('Nat'))],
    'PrefIndex': [('index', D('Nat', L('Nat'))), ('emptyRecords', L('Nat'))],
    'InvIndex': [('index', D('String', L('Nat'))), ('sizeCache', L('Nat')), ('emptyRecords', L('Nat'))],
    'PosIndex': [('index', D('Nat', L(P('Nat', 'Nat')))), ('sizeCache', L('Nat')), ('minLength', 'Int'),
                 ('maxLength', 'Int'), ('cachedTokens', L(L('Nat'))), ('emptyRecords', L('Nat'))],
}

# classes whose objects the join / filter workers construct.  `ctor`: constructor parameters (name, kind) where
# kind is a type, or TOK / MEASURE / THRESHOLD (the three values that together are the `FCfg` of the worker:
# the argument must be literally the worker's tokenizer / measure / threshold source), or ('const', src).
# `build`: the generated builder; `pre` = its leading arguments (the FCfg and the row view of the table).
VIEW_ORDERED = ('(List.map (fun row => order_using_token_ordering (tok (Row.cell row {index_attr}).strVal) '
                '{token_ordering}) {table})')
CLASSES = {
    'PositionIndex': dict(
        file='py_stringsimjoin/index/position_index.py', module='py_stringsimjoin.index.position_index',
        ctor=[('table', L('Row')), ('index_attr', 'Nat'), ('tokenizer', 'TOK'), ('sim_measure_type', 'MEASURE'),
              ('threshold', 'THRESHOLD'), ('token_ordering', D('String', 'Nat'))],
        record='PosIndex',
        build=dict(lean='PositionIndex_build', pre=['{cfg}', VIEW_ORDERED],
                   params=[('cache_empty_records', 'Bool', 'true'), ('cache_tokens', 'Bool', 'false')]),
        keys={'empty_records': 'emptyRecords', 'cached_tokens': 'cachedTokens'}),
    'PrefixIndex': dict(
        file='py_stringsimjoin/index/prefix_index.py', module='py_stringsimjoin.index.prefix_index',
        ctor=[('table', L('Row')), ('index_attr', 'Nat'), ('tokenizer', 'TOK'), ('sim_measure_type', 'MEASURE'),
              ('threshold', 'THRESHOLD'), ('token_ordering', D('String', 'Nat'))],
        record='PrefIndex',
        build=dict(lean='PrefixIndex_build', pre=['{cfg}', VIEW_ORDERED],
                   params=[('cache_empty_records', 'Bool', 'true')]),
        keys={'empty_records': 'emptyRecords'}),
    'SizeIndex': dict(
        file='py_stringsimjoin/index/size_index.py', module='py_stringsimjoin.index.size_index',
        ctor=[('table', L('Row')), ('index_attr', 'Nat'), ('tokenizer', 'TOK')],
        record='SizeIndex',
        build=dict(lean='SizeIndex_build',
                   pre=['(List.map (fun row => (tok (Row.cell row {index_attr}).strVal).length) {table})'],
                   params=[('cache_empty_records', 'Bool', 'true')]),
        keys={'empty_records': 'emptyRecords'}),
    'InvertedIndex': dict(
        file='py_stringsimjoin/index/inverted_index.py', module='py_stringsimjoin.index.inverted_index',
        ctor=[('table', L('Row')), ('index_attr', 'Nat'), ('tokenizer', 'TOK'), ('cache_size_flag', 'Bool', 'false')],
        record='InvIndex',
        build=dict(lean='InvertedIndex_build',
                   pre=['(List.map (fun row => tok (Row.cell row {index_attr}).strVal) {table})', '{cache_size_flag}'],
                   params=[('cache_empty_records', 'Bool', 'true')]),
        keys={'empty_records': 'emptyRecords'}),
    # filter objects built inside a join: only their find_candidates is used
    'PositionFilter': dict(
        file='py_stringsimjoin/filter/position_filter.py', module='py_stringsimjoin.filter.position_filter',
        ctor=[('tokenizer', 'TOK'), ('sim_measure_type', 'MEASURE'), ('threshold', 'THRESHOLD'),
              ('allow_empty', 'Bool', 'true'), ('allow_missing', 'Bool', 'false')],
        value=('FilterObj', '({{ cfg := {cfg}, allowEmpty := {allow_empty}, allowMissing := {allow_missing} }} : FilterObj)')),
    'PrefixFilter': dict(
        file='py_stringsimjoin/filter/prefix_filter.py', module='py_stringsimjoin.filter.prefix_filter',
        ctor=[('tokenizer', 'TOK'), ('sim_measure_type', 'MEASURE'), ('threshold', 'THRESHOLD'),
              ('allow_empty', 'Bool', 'true'), ('allow_missing', 'Bool', 'false')],
        value=('FilterObj', '({{ cfg := {cfg}, allowEmpty := {allow_empty}, allowMissing := {allow_missing} }} : FilterObj)')),
    'OverlapFilter': dict(
        file='py_stringsimjoin/filter/overlap_filter.py', module='py_stringsimjoin.filter.overlap_filter',
        ctor=[('tokenizer', 'TOK'), ('overlap_size', 'Nat', '1'), ('comp_op', 'String', '">="'),
              ('allow_missing', 'Bool', 'false')],
        value=('OverlapFilterObj', '({{ overlapSize := PyV.int (Int.ofNat {overlap_size}), compOp := {comp_op}, '
                                   'allowMissing := {allow_missing} }} : OverlapFilterObj)')),
}

# methods of filter objects (a parameter or a constructed object) that are generated functions
OBJ_METHODS = {
    ('FilterObj', 'PositionFilter', 'find_candidates'): ('PositionFilter_find_candidates {recv}', [L('Nat'), 'PosIndex'], D('Nat', 'Int')),
    ('FilterObj', 'PrefixFilter', 'find_candidates'): ('PrefixFilter_find_candidates {recv}', [L('Nat'), 'PrefIndex'], ('Set', 'Nat')),
    ('FilterObj', 'SizeFilter', 'find_candidates'): ('SizeFilter_find_candidates {recv}', ['Nat', 'SizeIndex'], ('Set', 'Nat')),
    ('OverlapFilterObj', 'OverlapFilter', 'find_candidates'): ('OverlapFilter_find_candidates', [L('String'), 'InvIndex'], D('Nat', 'Int')),
    ('FilterObj', 'SuffixFilter', '_filter_suffix'): ('SuffixFilter_filter_suffix {recv}', [L('Nat'), L('Nat'), 'Int', 'Int', 'Nat', 'Nat'], 'Bool'),
}

# `self.sim_measure_type == '<NAME>'`  (Measure.name in SSJ/Model/Basic.lean)
MEASURES = {'COSINE': 'Measure.cosine', 'DICE': 'Measure.dice', 'EDIT_DISTANCE': 'Measure.editDistance',
            'JACCARD': 'Measure.jaccard', 'OVERLAP': 'Measure.overlap'}

# names that must be bound by exactly this import in the module for the idiom to apply
REQUIRED_IMPORTS = {
    'floor': ('math', 'floor'),
    'pd': ('pandas', None),
    'maxsize': ('sys', 'maxsize'),
    'itemgetter': ('operator', 'itemgetter'),
    'xrange': ('six.moves', 'xrange'),
    'get_size_lower_bound': (FILTER_UTILS, 'get_size_lower_bound'),
    'get_size_upper_bound': (FILTER_UTILS, 'get_size_upper_bound'),
    'get_prefix_length': (FILTER_UTILS, 'get_prefix_length'),
    'get_overlap_threshold': (FILTER_UTILS, 'get_overlap_threshold'),
}
BUILTINS_USED = ('len', 'min', 'max', 'sorted', 'list')

# ------------------------------------------------------------------------------------------------
# per-function signature / type table
# ------------------------------------------------------------------------------------------------
GH = 'py_stringsimjoin/utils/generic_helper.py'
TO = 'py_stringsimjoin/utils/token_ordering.py'
OF = 'py_stringsimjoin/filter/overlap_filter.py'
PF = 'py_stringsimjoin/filter/position_filter.py'
PI = 'py_stringsimjoin/index/position_index.py'
MVH = 'py_stringsimjoin/utils/missing_value_handler.py'
SF = 'py_stringsimjoin/filter/suffix_filter.py'
SZ = 'py_stringsimjoin/filter/size_filter.py'
PRF = 'py_stringsimjoin/filter/prefix_filter.py'
TOKFN = Fn(['String'], L('String'))
TOKORD = 'py_stringsimjoin.utils.token_ordering'
ORD_CALLS = {
    'gen_token_ordering_for_lists': dict(lean='gen_token_ordering_for_lists', args=[L(L('String'))],
                                         ret=D('String', 'Nat'),
                                         **{'import': (TOKORD, 'gen_token_ordering_for_lists')}),
    'order_using_token_ordering': dict(lean='order_using_token_ordering',
                                       args=[L('String'), D('String', 'Nat')], ret=L('Nat'),
                                       **{'import': (TOKORD, 'order_using_token_ordering')}),
}
GH_MOD = 'py_stringsimjoin.utils.generic_helper'
SIMF_MOD = 'py_stringsimjoin.utils.simfunctions'
WORKER_CALLS = {
    'find_output_attribute_indices': dict(lean='find_output_attribute_indices',
                                          args=[L('String'), O(L('String'))], ret=L('Nat'),
                                          **{'import': (GH_MOD, 'find_output_attribute_indices')}),
    'get_output_row_from_tables': dict(lean='get_output_row_from_tables',
                                       args=['Row', 'Row', 'Nat', 'Nat', L('Nat'), L('Nat')], ret='Row',
                                       **{'import': (GH_MOD, 'get_output_row_from_tables')}),
    'get_output_header_from_tables': dict(lean='get_output_header_from_tables',
                                          args=['String', 'String', O(L('String')), O(L('String')), 'String', 'String'],
                                          ret=L('String'),
                                          **{'import': (GH_MOD, 'get_output_header_from_tables')}),
    'gen_token_ordering_for_tables': dict(lean='gen_token_ordering_for_tables',
                                          args=[L(L('Row')), L('Nat'), 'TOK', 'SKIP'], ret=D('String', 'Nat'),
                                          **{'import': (TOKORD, 'gen_token_ordering_for_tables')}),
    'order_using_token_ordering': dict(lean='order_using_token_ordering',
                                       args=[L('String'), D('String', 'Nat')], ret=L('Nat'),
                                       **{'import': (TOKORD, 'order_using_token_ordering')}),
}
COMP_ALIAS = dict(src='COMP_OP_MAP[comp_op]', imports={'COMP_OP_MAP': (GH_MOD, 'COMP_OP_MAP')},
                  lean='(compFn comp_op {0} {1})', args=['PyV', 'PyV'], ret='Bool')
WORKER_LOCALS = {'l_key_attr_index': 'Nat', 'r_key_attr_index': 'Nat', 'l_out_attrs_indices': L('Nat'),
                 'r_out_attrs_indices': L('Nat'), 'output_rows': L('Row'), 'has_output_attributes': 'Bool',
                 'r_row': 'Row', 'r_string': 'Cell', 'l_id': 'Nat', 'output_row': 'Row', 'cand': 'Nat',
                 'l_empty_records': L('Nat'), 'output_header': L('String')}
WORKER_HEAD = [('l_columns', L('String')), ('r_columns', L('String')), ('l_key_attr', 'String'),
               ('r_key_attr', 'String')]
WORKER_OUT = [('l_out_attrs', O(L('String'))), ('r_out_attrs', O(L('String'))), ('l_out_prefix', 'String'),
              ('r_out_prefix', 'String')]
WORKER_RET = P(L('String'), L('Row'))
PAIR_PARAMS = [('self', 'FilterObj'), ('tok', TOKFN), ('lstring', 'Cell'), ('rstring', 'Cell')]
PAIR_LOCALS = {'ltokens': L('String'), 'rtokens': L('String'), 'l_num_tokens': 'Nat', 'r_num_tokens': 'Nat',
               'token_ordering': D('String', 'Nat'), 'ordered_ltokens': L('Nat'), 'ordered_rtokens': L('Nat'),
               'l_prefix_length': 'Int', 'r_prefix_length': 'Int'}
# token type of the suffix-filter helpers: ranks (Nat) or numbered ranks (Nat × Nat, lexicographic)
TOKV = '{τ : Type} [DecidableEq τ] [LT τ] [DecidableLT τ] [Inhabited τ]'
LT_ = ('List', 'τ')
BS_ARGS = [LT_, 'τ', 'Int', 'Int']
PART_RET = T(LT_, LT_, 'Int', 'Int')
EST_ARGS = [LT_, LT_, 'Int', 'Int', 'Int', 'Nat']

SPECS = [
    dict(lean='remove_redundant_attrs', file=GH, cls=None, py='remove_redundant_attrs',
         model='SSJ.removeRedundantAttrs',
         params=[('out_attrs', O(L('String'))), ('key_attr', 'String')], ret=O(L('String')),
         locals={'uniq_attrs': L('String'), 'seen_attrs': D('String', 'Bool'), 'attr': 'String'}),
    dict(lean='get_attrs_to_project', file=GH, cls=None, py='get_attrs_to_project',
         model='SSJ.getAttrsToProject',
         params=[('out_attrs', O(L('String'))), ('key_attr', 'String'), ('join_attr', 'String')],
         ret=L('String'),
         locals={'proj_attrs': L('String'), 'attr': 'String'}),
    dict(lean='find_output_attribute_indices', file=GH, cls=None, py='find_output_attribute_indices',
         model='SSJ.findOutputAttributeIndices',
         params=[('original_columns', L('String')), ('output_attributes', O(L('String')))],
         ret=L('Nat'),
         locals={'output_attribute_indices': L('Nat'), 'attr': 'String'}),
    dict(lean='get_output_header_from_tables', file=GH, cls=None, py='get_output_header_from_tables',
         model='SSJ.getOutputHeader',
         params=[('l_key_attr', 'String'), ('r_key_attr', 'String'),
                 ('l_out_attrs', O(L('String'))), ('r_out_attrs', O(L('String'))),
                 ('l_out_prefix', 'String'), ('r_out_prefix', 'String')],
         ret=L('String'),
         locals={'output_header': L('String'), 'l_attr': 'String', 'r_attr': 'String'}),
    dict(lean='get_output_row_from_tables', file=GH, cls=None, py='get_output_row_from_tables',
         model='SSJ.getOutputRow',
         params=[('l_row', 'Row'), ('r_row', 'Row'),
                 ('l_key_attr_index', 'Nat'), ('r_key_attr_index', 'Nat'),
                 ('l_out_attrs_indices', L('Nat')), ('r_out_attrs_indices', L('Nat'))],
         ret='Row',
         locals={'output_row': 'Row', 'l_attr_index': 'Nat', 'r_attr_index': 'Nat'}),
    dict(lean='order_using_token_ordering', file=TO, cls=None, py='order_using_token_ordering',
         model='SSJ.orderUsing',
         params=[('tokens', L('String')), ('token_ordering', D('String', 'Nat'))], ret=L('Nat'),
         locals={'ordered_tokens': L('Nat'), 'token': 'String', 'order': O('Nat')}),
    dict(lean='gen_token_ordering_for_lists', file=TO, cls=None, py='gen_token_ordering_for_lists',
         model='SSJ.genTokenOrdering',
         params=[('token_lists', L(L('String')))], ret=D('String', 'Nat'),
         locals={'token_freq_dict': D('String', 'Nat'), 'token_list': L('String'), 'token': 'String',
                 'order_idx': 'Nat', 'ordered_tokens': L(P('String', 'Nat')),
                 'token_ordering': D('String', 'Nat'), 'token_freq_tuple': P('String', 'Nat')}),
    dict(lean='OverlapFilter_find_candidates', file=OF, cls='OverlapFilter', py='find_candidates',
         model='SSJ.overlapFindCandidates',
         params=[('probe_tokens', L('String')), ('inverted_index', 'InvIndex')],
         ret=D('Nat', 'Int'),
         locals={'candidate_overlap': D('Nat', 'Int'), 'token': 'String', 'cand': 'Nat'}),
    dict(lean='PositionFilter_find_candidates', file=PF, cls='PositionFilter', py='find_candidates',
         model='SSJ.positionFindCandidates',
         params=[('self', 'FilterObj'), ('probe_tokens', L('Nat')), ('position_index', 'PosIndex')],
         ret=D('Nat', 'Int'), cfg='self.cfg',
         locals={'probe_num_tokens': 'Nat', 'size_lower_bound': 'Int', 'size_upper_bound': 'Int',
                 'overlap_threshold_cache': 'Cache', 'size': 'Int',
                 'probe_prefix_length': 'Int', 'candidate_overlap': D('Nat', 'Int'),
                 'probe_pos': 'Nat', 'token': 'Nat', 'cand': 'Nat', 'cand_pos': 'Nat',
                 'current_overlap': 'Int', 'cand_num_tokens': 'Nat', 'overlap_upper_bound': 'Int'}),
    # PositionIndex.build: the object state `self.X` becomes the mutable locals `self_X` (those not
    # assigned by `build` itself start with the value `__init__` gives them, which is checked); the
    # rows are seen through the view `ordered_rows` = for each row of `self.table` the value of
    # `order_using_token_ordering(self.tokenizer.tokenize(row[self.index_attr]), self.token_ordering)`
    # (the tokenizer is not modelled; the hand model takes the same list); the result record collects
    # the final state and the two entries of the returned dict.
    dict(lean='PositionIndex_build', file=PI, cls='PositionIndex', py='build', model='SSJ.PosIndex.build',
         pyparams=['self', 'cache_empty_records', 'cache_tokens'],
         params=[('cfg', 'FCfg'), ('ordered_rows', L(L('Nat'))),
                 ('cache_empty_records', 'Bool'), ('cache_tokens', 'Bool')],
         ret='PosIndex', cfg='cfg',
         state=[('index', 'self_index', None), ('size_cache', 'self_size_cache', None),
                ('min_length', 'self_min_length', 'maxsize'), ('max_length', 'self_max_length', '0')],
         row_view=dict(iter='self.table', var='row',
                       steps=['index_string = row[self.index_attr]',
                              'index_attr_tokens = order_using_token_ordering('
                              'self.tokenizer.tokenize(index_string), self.token_ordering)'],
                       hidden=['row', 'index_string'], view='index_attr_tokens', param='ordered_rows'),
         ret_record=[('index', 'self_index'), ('sizeCache', 'self_size_cache'),
                     ('minLength', 'self_min_length'), ('maxLength', 'self_max_length'),
                     ('cachedTokens', "'cached_tokens'"), ('emptyRecords', "'empty_records'")],
         locals={'self_index': D('Nat', L(P('Nat', 'Nat'))), 'self_size_cache': L('Nat'),
                 'self_min_length': 'Int', 'self_max_length': 'Int',
                 'cached_tokens': L(L('Nat')), 'empty_records': L('Nat'), 'row_id': 'Nat',
                 'index_attr_tokens': L('Nat'), 'num_tokens': 'Nat', 'prefix_length': 'Int',
                 'pos': 'Nat', 'token': 'Nat'}),

    # ------------------------------------------------------------------------------------------------
    # stage 3, group A: filter/suffix_filter.py
    # ------------------------------------------------------------------------------------------------
    dict(lean='number_repeated_tokens', out='Loops2', file=SF, cls=None, py='_number_repeated_tokens',
         model='SSJ.numberRepeated (pairs (t, k) encoded as t * base + k)',
         params=[('ordered_tokens', L('Nat'))], ret=L('NumTok'),
         locals={'numbered_tokens': L('NumTok'), 'prev_token': O('Nat'), 'occurrence': 'Nat',
                 'token': 'Nat'}),
    # recursive in Python: structural recursion on `fuel`; out of fuel (Python: RecursionError) ↦ `left`,
    # as in the model
    dict(lean='SuffixFilter_binary_search', out='Loops2', file=SF, cls='SuffixFilter', py='_binary_search',
         model='SSJ.suffixBinarySearch', tyvars=TOKV,
         pyparams=['self', 'tokens', 'probe_token', 'left', 'right'],
         params=[('tokens', LT_), ('probe_token', 'τ'), ('left', 'Int'), ('right', 'Int')], ret='Int',
         fuel=dict(exhausted='left'),
         calls={'self._binary_search': dict(lean='SuffixFilter_binary_search', fuel='fuel', args=BS_ARGS, ret='Int')},
         locals={'mid': 'Int', 'mid_token': 'τ'}),
    dict(lean='SuffixFilter_partition', out='Loops2', file=SF, cls='SuffixFilter', py='_partition',
         model='SSJ.suffixPartition', tyvars=TOKV,
         pyparams=['self', 'tokens', 'probe_token', 'left', 'right'],
         params=[('tokens', LT_), ('probe_token', 'τ'), ('left', 'Int'), ('right', 'Int')], ret=PART_RET,
         # the search interval has right - left + 1 positions and shrinks at every call
         calls={'self._binary_search': dict(lean='SuffixFilter_binary_search', fuel='({3} - {2} + 2).toNat',
                                            args=BS_ARGS, ret='Int')},
         locals={'pos': 'Int', 'tokens_left': LT_, 'tokens_right': LT_, 'diff': 'Int'}),
    dict(lean='SuffixFilter_est_hamming_dist_lower_bound', out='Loops2', file=SF, cls='SuffixFilter',
         py='_est_hamming_dist_lower_bound', model='SSJ.suffixEstHamming 2', tyvars=TOKV,
         pyparams=['self', 'l_suffix', 'r_suffix', 'l_suffix_num_tokens', 'r_suffix_num_tokens',
                   'hamming_dist_max', 'depth'],
         params=[('l_suffix', LT_), ('r_suffix', LT_), ('l_suffix_num_tokens', 'Int'),
                 ('r_suffix_num_tokens', 'Int'), ('hamming_dist_max', 'Int'), ('depth', 'Nat')], ret='Int',
         fuel=dict(exhausted='(intAbs (l_suffix_num_tokens - r_suffix_num_tokens))'),
         consts={'self.max_depth': ('2', 'Nat')},
         calls={'self._partition': dict(lean='SuffixFilter_partition', args=BS_ARGS, ret=PART_RET),
                'self._est_hamming_dist_lower_bound': dict(lean='SuffixFilter_est_hamming_dist_lower_bound',
                                                           fuel='fuel', args=EST_ARGS, ret='Int')},
         locals={'abs_diff': 'Int', 'r_mid': 'Int', 'r_mid_token': 'τ', 'o': 'Rat', 'o_l': 'Int', 'o_r': 'Int',
                 'r_l': LT_, 'r_r': LT_, 'l_l': LT_, 'l_r': LT_, 'flag': 'Int', 'diff': 'Int',
                 'r_l_num_tokens': 'Nat', 'r_r_num_tokens': 'Nat', 'l_l_num_tokens': 'Nat',
                 'l_r_num_tokens': 'Nat', 'hamming_dist': 'Int', 'hamming_dist_l': 'Int',
                 'hamming_dist_r': 'Int'}),
    dict(lean='SuffixFilter_filter_suffix', out='Loops2', file=SF, cls='SuffixFilter', py='_filter_suffix',
         model='SSJ.suffixFilterSuffixN',
         pyparams=['self', 'l_suffix', 'r_suffix', 'l_prefix_num_tokens', 'r_prefix_num_tokens',
                   'l_num_tokens', 'r_num_tokens'],
         params=[('self', 'FilterObj'), ('l_suffix', L('Nat')), ('r_suffix', L('Nat')),
                 ('l_prefix_num_tokens', 'Int'), ('r_prefix_num_tokens', 'Int'),
                 ('l_num_tokens', 'Nat'), ('r_num_tokens', 'Nat')], ret='Bool', cfg='self.cfg',
         retype={'l_suffix': L('NumTok'), 'r_suffix': L('NumTok')},
         # depth starts at 1 and a call at depth > max_depth = 2 returns at once: 3 nested calls, fuel 4
         calls={'_number_repeated_tokens': dict(lean='number_repeated_tokens', args=[L('Nat')],
                                                ret=L('NumTok')),
                'self._est_hamming_dist_lower_bound': dict(lean='SuffixFilter_est_hamming_dist_lower_bound',
                                                           fuel='4', args=EST_ARGS, ret='Int')},
         locals={'overlap_threshold': 'Int', 'hamming_dist_max': 'Int', 'hamming_dist': 'Int'}),

    # ------------------------------------------------------------------------------------------------
    # stage 3, group B: filter_pair.  `lstring`/`rstring` are cells of the join columns, the tokenizer is the
    # parameter `tok`.
    # ------------------------------------------------------------------------------------------------
    dict(lean='SizeFilter_filter_pair', out='Loops2', file=SZ, cls='SizeFilter', py='filter_pair',
         model='SSJ.sizeFilterPair', pyparams=['self', 'lstring', 'rstring'], params=PAIR_PARAMS, ret='Bool',
         cfg='self.cfg',
         locals={'l_num_tokens': 'Nat', 'r_num_tokens': 'Nat', 'size_lower_bound': 'Int', 'size_upper_bound': 'Int'}),
    dict(lean='PrefixFilter_filter_pair', out='Loops2', file=PRF, cls='PrefixFilter', py='filter_pair',
         model='SSJ.prefixFilterPair', pyparams=['self', 'lstring', 'rstring'], params=PAIR_PARAMS, ret='Bool',
         cfg='self.cfg', calls=ORD_CALLS,
         locals=dict(PAIR_LOCALS, prefix_overlap=('Set', 'Nat'))),
    dict(lean='PositionFilter_filter_pair', out='Loops2', file=PF, cls='PositionFilter', py='filter_pair',
         model='SSJ.positionFilterPair', pyparams=['self', 'lstring', 'rstring'], params=PAIR_PARAMS, ret='Bool',
         cfg='self.cfg', calls=ORD_CALLS,
         # `l_pos` is first the int 0 and later the result of `dict.get`: typed Option Nat
         locals=dict(PAIR_LOCALS, l_prefix_dict=D('Nat', 'Nat'), l_pos=O('Nat'), token='Nat',
                     overlap_threshold='Int', current_overlap='Int', r_pos='Nat', overlap_upper_bound='Int')),
    dict(lean='SuffixFilter_filter_pair', out='Loops2', file=SF, cls='SuffixFilter', py='filter_pair',
         model='SSJ.suffixFilterPair', pyparams=['self', 'lstring', 'rstring'], params=PAIR_PARAMS, ret='Bool',
         cfg='self.cfg',
         calls=dict(ORD_CALLS, **{'self._filter_suffix': dict(
             lean='SuffixFilter_filter_suffix', pre=['self'],
             args=[L('Nat'), L('Nat'), 'Int', 'Int', 'Nat', 'Nat'], ret='Bool')}),
         locals=PAIR_LOCALS),
    dict(lean='OverlapFilter_filter_pair', out='Loops2', file=OF, cls='OverlapFilter', py='filter_pair',
         model='SSJ.overlapFilterPair', pyparams=['self', 'lstring', 'rstring'],
         params=[('self', 'OverlapFilterObj'), ('tok', TOKFN), ('lstring', 'Cell'), ('rstring', 'Cell')],
         ret='Bool', string_cells=['lstring', 'rstring'],
         calls={'overlap': dict(lean='overlapCount', args=[L('String'), L('String')], ret='Nat',
                                **{'import': ('py_stringsimjoin.utils.simfunctions', 'overlap')})},
         contracts=[('py_stringsimjoin/utils/simfunctions.py', None, 'overlap',
                     'if not isinstance(set1, set):\n    set1 = set(set1)\n'
                     'if not isinstance(set2, set):\n    set2 = set(set2)\n'
                     'return len(set1.intersection(set2))')],
         locals={'ltokens': L('String'), 'rtokens': L('String'), 'num_overlap': 'Nat'}),

    # ------------------------------------------------------------------------------------------------
    # stage 3, group C: find_candidates of the size and prefix filters, the remaining index builders,
    # gen_token_ordering_for_tables
    # ------------------------------------------------------------------------------------------------
    dict(lean='SizeFilter_find_candidates', out='Loops2', file=SZ, cls='SizeFilter', py='find_candidates',
         model='SSJ.sizeFindCandidates', pyparams=['self', 'probe_size', 'size_index'],
         params=[('self', 'FilterObj'), ('probe_size', 'Nat'), ('size_index', 'SizeIndex')],
         ret=('Set', 'Nat'), cfg='self.cfg',
         locals={'size_lower_bound': 'Int', 'size_upper_bound': 'Int', 'candidates': ('Set', 'Nat'),
                 'cand_size': 'Int', 'cand': 'Nat'}),
    dict(lean='PrefixFilter_find_candidates', out='Loops2', file=PRF, cls='PrefixFilter', py='find_candidates',
         model='SSJ.prefixFindCandidates', pyparams=['self', 'probe_tokens', 'prefix_index'],
         params=[('self', 'FilterObj'), ('probe_tokens', L('Nat')), ('prefix_index', 'PrefIndex')],
         ret=('Set', 'Nat'), cfg='self.cfg',
         locals={'probe_num_tokens': 'Nat', 'probe_prefix_length': 'Int', 'candidates': ('Set', 'Nat'),
                 'token': 'Nat'}),
    dict(lean='SizeIndex_build', out='Loops2', file='py_stringsimjoin/index/size_index.py', cls='SizeIndex',
         py='build', model='SSJ.SizeIndex.build', pyparams=['self', 'cache_empty_records'],
         params=[('sizes', L('Nat')), ('cache_empty_records', 'Bool')], ret='SizeIndex',
         state=[('index', 'self_index', None), ('min_length', 'self_min_length', 'maxsize'),
                ('max_length', 'self_max_length', '0')],
         row_view=dict(iter='self.table', var='row',
                       steps=['index_string = row[self.index_attr]',
                              'num_tokens = len(self.tokenizer.tokenize(index_string))'],
                       hidden=['row', 'index_string'], view='num_tokens', param='sizes'),
         ret_record=[('index', 'self_index'), ('minLength', 'self_min_length'), ('maxLength', 'self_max_length'),
                     ('emptyRecords', "'empty_records'")],
         locals={'self_index': D('Nat', L('Nat')), 'self_min_length': 'Int', 'self_max_length': 'Int',
                 'empty_records': L('Nat'), 'row_id': 'Nat', 'num_tokens': 'Nat'}),
    dict(lean='PrefixIndex_build', out='Loops2', file='py_stringsimjoin/index/prefix_index.py', cls='PrefixIndex',
         py='build', model='SSJ.PrefIndex.build', pyparams=['self', 'cache_empty_records'],
         params=[('cfg', 'FCfg'), ('ordered_rows', L(L('Nat'))), ('cache_empty_records', 'Bool')],
         ret='PrefIndex', cfg='cfg',
         state=[('index', 'self_index', None)],
         row_view=dict(iter='self.table', var='row',
                       steps=['index_string = row[self.index_attr]',
                              'index_attr_tokens = order_using_token_ordering('
                              'self.tokenizer.tokenize(index_string), self.token_ordering)'],
                       hidden=['row', 'index_string'], view='index_attr_tokens', param='ordered_rows'),
         ret_record=[('index', 'self_index'), ('emptyRecords', "'empty_records'")],
         locals={'self_index': D('Nat', L('Nat')), 'empty_records': L('Nat'), 'row_id': 'Nat',
                 'index_attr_tokens': L('Nat'), 'num_tokens': 'Nat', 'prefix_length': 'Int', 'token': 'Nat'}),
    dict(lean='InvertedIndex_build', out='Loops2', file='py_stringsimjoin/index/inverted_index.py',
         cls='InvertedIndex', py='build', model='SSJ.InvIndex.build', pyparams=['self', 'cache_empty_records'],
         params=[('token_rows', L(L('String'))), ('cache_size_flag', 'Bool'), ('cache_empty_records', 'Bool')],
         ret='InvIndex',
         consts={'self.cache_size_flag': ('cache_size_flag', 'Bool')},
         state=[('index', 'self_index', None), ('size_cache', 'self_size_cache', None)],
         row_view=dict(iter='self.table', var='row',
                       steps=['index_string = row[self.index_attr]',
                              'index_attr_tokens = self.tokenizer.tokenize(index_string)'],
                       hidden=['row', 'index_string'], view='index_attr_tokens', param='token_rows'),
         ret_record=[('index', 'self_index'), ('sizeCache', 'self_size_cache'),
                     ('emptyRecords', "'empty_records'")],
         locals={'self_index': D('String', L('Nat')), 'self_size_cache': L('Nat'), 'empty_records': L('Nat'),
                 'row_id': 'Nat', 'index_attr_tokens': L('String'), 'token': 'String', 'num_tokens': 'Nat'}),
    dict(lean='gen_token_ordering_for_tables', out='Loops2', file=TO, cls=None, py='gen_token_ordering_for_tables',
         model='SSJ.genTokenOrdering', pyparams=['table_list', 'attr_list', 'tokenizer', 'sim_measure_type'],
         params=[('table_list', L(L('Row'))), ('attr_list', L('Nat')), ('tok', TOKFN)], ret=D('String', 'Nat'),
         tokenizer='tokenizer', unused_params=['sim_measure_type'],
         locals={'token_freq_dict': D('String', 'Nat'), 'table_index': 'Nat', 'table': L('Row'), 'row': 'Row',
                 'token': 'String', 'ordered_tokens': L(P('String', 'Nat')), 'token_ordering': D('String', 'Nat'),
                 'order_idx': 'Nat', 'token_freq_tuple': P('String', 'Nat')}),

    # ------------------------------------------------------------------------------------------------
    # stage 3, group D: the per-chunk workers on plain row lists, up to (not including) the final
    # `pd.DataFrame(output_rows, columns=output_header)`: the result is the pair (header, rows).
    # The triple (tokenizer, sim_measure_type, threshold) is the parameter `cfg : FCfg` (+ `tok`).
    # ------------------------------------------------------------------------------------------------
    dict(lean='set_sim_join', out='Loops2', file='py_stringsimjoin/join/set_sim_join.py', cls=None,
         py='set_sim_join', model='SSJ.setSimJoin',
         pyparams=['ltable', 'rtable', 'l_columns', 'r_columns', 'l_key_attr', 'r_key_attr', 'l_join_attr',
                   'r_join_attr', 'tokenizer', 'sim_measure_type', 'threshold', 'comp_op', 'allow_empty',
                   'l_out_attrs', 'r_out_attrs', 'l_out_prefix', 'r_out_prefix', 'out_sim_score', 'show_progress'],
         params=[('ltable', L('Row')), ('rtable', L('Row'))] + WORKER_HEAD +
                [('l_join_attr', 'String'), ('r_join_attr', 'String'), ('tok', TOKFN), ('cfg', 'FCfg'),
                 ('comp_op', 'String'), ('allow_empty', 'Bool')] + WORKER_OUT + [('out_sim_score', 'Bool')],
         ret=WORKER_RET, tokenizer='tokenizer', cfg='cfg',
         param_map={'tokenizer': (None, None), 'sim_measure_type': ('cfg.measure', 'Measure'),
                    'threshold': ('cfg.threshold', 'PyV')},
         cfg_sources={'TOK': 'tokenizer', 'MEASURE': 'sim_measure_type', 'THRESHOLD': 'threshold'},
         ignore_if=['show_progress'], dataframe_return=('output_rows', 'output_header'),
         objects={'position_index': 'PositionIndex', 'pos_filter': 'PositionFilter'},
         build_results={'cached_data': 'position_index'},
         fn_aliases={'sim_fn': dict(src='get_sim_function(sim_measure_type)',
                                    imports={'get_sim_function': (SIMF_MOD, 'get_sim_function')},
                                    lean='(simRaw cfg.measure {0} {1})', args=[L('Nat'), L('Nat')], ret='PyV'),
                     'comp_fn': COMP_ALIAS},
         calls=WORKER_CALLS,
         locals=dict(WORKER_LOCALS, l_join_attr_index='Nat', r_join_attr_index='Nat',
                     token_ordering=D('String', 'Nat'), cached_l_tokens=L(L('Nat')), r_ordered_tokens=L('Nat'),
                     candidate_overlap=D('Nat', 'Int'), overlap='Int', l_ordered_tokens=L('Nat'),
                     sim_score='PyV')),

    dict(lean='overlap_coefficient_join_split', out='Loops2',
         file='py_stringsimjoin/join/overlap_coefficient_join_py.py', cls=None,
         py='_overlap_coefficient_join_split', model='SSJ.overlapCoefficientJoinSplit',
         pyparams=['ltable_list', 'rtable_list', 'l_columns', 'r_columns', 'l_key_attr', 'r_key_attr',
                   'l_join_attr', 'r_join_attr', 'tokenizer', 'threshold', 'comp_op', 'allow_empty',
                   'l_out_attrs', 'r_out_attrs', 'l_out_prefix', 'r_out_prefix', 'out_sim_score', 'show_progress'],
         params=[('ltable_list', L('Row')), ('rtable_list', L('Row'))] + WORKER_HEAD +
                [('l_join_attr', 'String'), ('r_join_attr', 'String'), ('tok', TOKFN), ('threshold', 'PyV'),
                 ('comp_op', 'String'), ('allow_empty', 'Bool')] + WORKER_OUT + [('out_sim_score', 'Bool')],
         ret=WORKER_RET, tokenizer='tokenizer', param_map={'tokenizer': (None, None)},
         cfg_sources={'TOK': 'tokenizer'},
         ignore_if=['show_progress'], dataframe_return=('output_rows', 'output_header'),
         objects={'inverted_index': 'InvertedIndex', 'overlap_filter': 'OverlapFilter'},
         build_results={'cached_data': 'inverted_index'},
         fn_aliases={'comp_fn': COMP_ALIAS}, calls=WORKER_CALLS,
         locals=dict(WORKER_LOCALS, l_join_attr_index='Nat', r_join_attr_index='Nat',
                     r_join_attr_tokens=L('String'), r_num_tokens='Nat', candidate_overlap=D('Nat', 'Int'),
                     overlap='Int', sim_score='PyV')),
    dict(lean='edit_distance_join_split', out='Loops2',
         file='py_stringsimjoin/join/edit_distance_join_py.py', cls=None,
         py='_edit_distance_join_split', model='SSJ.editDistanceJoinSplit',
         pyparams=['ltable_list', 'rtable_list', 'l_columns', 'r_columns', 'l_key_attr', 'r_key_attr',
                   'l_join_attr', 'r_join_attr', 'tokenizer', 'threshold', 'comp_op',
                   'l_out_attrs', 'r_out_attrs', 'l_out_prefix', 'r_out_prefix', 'out_sim_score', 'show_progress'],
         # `qval` is the q of the q-gram tokenizer (what get_prefix_length reads from `tokenizer`)
         params=[('ltable_list', L('Row')), ('rtable_list', L('Row'))] + WORKER_HEAD +
                [('l_join_attr', 'String'), ('r_join_attr', 'String'), ('tok', TOKFN), ('qval', 'Int'),
                 ('threshold', 'Int'), ('comp_op', 'String')] + WORKER_OUT + [('out_sim_score', 'Bool')],
         ret=WORKER_RET, tokenizer='tokenizer',
         cfg='({ measure := Measure.editDistance, threshold := PyV.int threshold, qval := PyV.int qval } : FCfg)',
         param_map={'tokenizer': (None, None), 'sim_measure_type': (None, None)},
         const_locals={'sim_measure_type': "'EDIT_DISTANCE'"},
         cfg_sources={'TOK': 'tokenizer', 'MEASURE': 'sim_measure_type', 'THRESHOLD': 'threshold'},
         ignore_if=['show_progress'], dataframe_return=('output_rows', 'output_header'),
         objects={'prefix_index': 'PrefixIndex', 'prefix_filter': 'PrefixFilter'},
         fn_aliases={'comp_fn': COMP_ALIAS,
                     'sim_fn': dict(src='get_sim_function(sim_measure_type)',
                                    imports={'get_sim_function': (SIMF_MOD, 'get_sim_function')},
                                    lean='(lev {0}.strVal {1}.strVal)', args=['Cell', 'Cell'], ret='Nat')},
         calls=WORKER_CALLS,
         locals=dict(WORKER_LOCALS, l_join_attr_index='Nat', r_join_attr_index='Nat',
                     token_ordering=D('String', 'Nat'), l_join_attr_list=L('Nat'), row='Row', r_len='Nat',
                     r_ordered_tokens=L('Nat'), candidates=('Set', 'Nat'), l_row='Row', edit_dist='Nat')),
    dict(lean='SizeFilter_filter_tables_split', out='Loops2', file='py_stringsimjoin/filter/size_filter.py', cls=None, py='_filter_tables_split', model='SSJ.sizeFilterTablesSplit',
         pyparams=['ltable', 'rtable', 'l_columns', 'r_columns', 'l_key_attr', 'r_key_attr', 'l_filter_attr', 'r_filter_attr', 'size_filter', 'l_out_attrs', 'r_out_attrs', 'l_out_prefix', 'r_out_prefix', 'show_progress'],
         params=[('ltable', L('Row')), ('rtable', L('Row'))] + WORKER_HEAD +
                [('l_filter_attr', 'String'), ('r_filter_attr', 'String'), ('size_filter', 'FilterObj'), ('tok', TOKFN)] +
                WORKER_OUT,
         ret=WORKER_RET, tokenizer='size_filter.tokenizer', cfg='size_filter.cfg', cfg_obj='size_filter',
         cfg_sources={'TOK': 'size_filter.tokenizer', 'MEASURE': 'size_filter.sim_measure_type', 'THRESHOLD': 'size_filter.threshold'},
         filter_params={'size_filter': 'SizeFilter'},
         ignore_if=['show_progress'], dataframe_return=('output_rows', 'output_header'),
         objects={'size_index': 'SizeIndex'}, build_results={'cached_data': 'size_index'}, calls=WORKER_CALLS,
         locals=dict(WORKER_LOCALS, l_filter_attr_index='Nat', r_filter_attr_index='Nat', handle_empty='Bool',
                     r_num_tokens='Nat', candidates=('Set', 'Nat'))),
    dict(lean='PrefixFilter_filter_tables_split', out='Loops2', file='py_stringsimjoin/filter/prefix_filter.py', cls=None, py='_filter_tables_split', model='SSJ.prefixFilterTablesSplit',
         pyparams=['ltable', 'rtable', 'l_columns', 'r_columns', 'l_key_attr', 'r_key_attr', 'l_filter_attr', 'r_filter_attr', 'prefix_filter', 'l_out_attrs', 'r_out_attrs', 'l_out_prefix', 'r_out_prefix', 'show_progress'],
         params=[('ltable', L('Row')), ('rtable', L('Row'))] + WORKER_HEAD +
                [('l_filter_attr', 'String'), ('r_filter_attr', 'String'), ('prefix_filter', 'FilterObj'), ('tok', TOKFN)] +
                WORKER_OUT,
         ret=WORKER_RET, tokenizer='prefix_filter.tokenizer', cfg='prefix_filter.cfg', cfg_obj='prefix_filter',
         cfg_sources={'TOK': 'prefix_filter.tokenizer', 'MEASURE': 'prefix_filter.sim_measure_type', 'THRESHOLD': 'prefix_filter.threshold'},
         filter_params={'prefix_filter': 'PrefixFilter'},
         ignore_if=['show_progress'], dataframe_return=('output_rows', 'output_header'),
         objects={'prefix_index': 'PrefixIndex'}, build_results={'cached_data': 'prefix_index'}, calls=WORKER_CALLS,
         locals=dict(WORKER_LOCALS, l_filter_attr_index='Nat', r_filter_attr_index='Nat', handle_empty='Bool',
                     token_ordering=D('String', 'Nat'), r_filter_attr_tokens=L('String'), r_ordered_tokens=L('Nat'), candidates=('Set', 'Nat'))),
    dict(lean='PositionFilter_filter_tables_split', out='Loops2', file='py_stringsimjoin/filter/position_filter.py', cls=None, py='_filter_tables_split', model='SSJ.positionFilterTablesSplit',
         pyparams=['ltable', 'rtable', 'l_columns', 'r_columns', 'l_key_attr', 'r_key_attr', 'l_filter_attr', 'r_filter_attr', 'position_filter', 'l_out_attrs', 'r_out_attrs', 'l_out_prefix', 'r_out_prefix', 'show_progress'],
         params=[('ltable', L('Row')), ('rtable', L('Row'))] + WORKER_HEAD +
                [('l_filter_attr', 'String'), ('r_filter_attr', 'String'), ('position_filter', 'FilterObj'), ('tok', TOKFN)] +
                WORKER_OUT,
         ret=WORKER_RET, tokenizer='position_filter.tokenizer', cfg='position_filter.cfg', cfg_obj='position_filter',
         cfg_sources={'TOK': 'position_filter.tokenizer', 'MEASURE': 'position_filter.sim_measure_type', 'THRESHOLD': 'position_filter.threshold'},
         filter_params={'position_filter': 'PositionFilter'},
         ignore_if=['show_progress'], dataframe_return=('output_rows', 'output_header'),
         objects={'position_index': 'PositionIndex'}, build_results={'cached_data': 'position_index'}, calls=WORKER_CALLS,
         locals=dict(WORKER_LOCALS, l_filter_attr_index='Nat', r_filter_attr_index='Nat', handle_empty='Bool',
                     token_ordering=D('String', 'Nat'), r_filter_attr_tokens=L('String'), r_ordered_tokens=L('Nat'), candidate_overlap=D('Nat', 'Int'), overlap='Int')),
    dict(lean='SuffixFilter_filter_tables_split', out='Loops2', file='py_stringsimjoin/filter/suffix_filter.py', cls=None, py='_filter_tables_split', model='SSJ.suffixFilterTablesSplit',
         pyparams=['ltable', 'rtable', 'l_columns', 'r_columns', 'l_key_attr', 'r_key_attr', 'l_filter_attr', 'r_filter_attr', 'suffix_filter', 'l_out_attrs', 'r_out_attrs', 'l_out_prefix', 'r_out_prefix', 'show_progress'],
         params=[('ltable', L('Row')), ('rtable', L('Row'))] + WORKER_HEAD +
                [('l_filter_attr', 'String'), ('r_filter_attr', 'String'), ('suffix_filter', 'FilterObj'), ('tok', TOKFN)] +
                WORKER_OUT,
         ret=WORKER_RET, tokenizer='suffix_filter.tokenizer', cfg='suffix_filter.cfg', cfg_obj='suffix_filter',
         cfg_sources={'TOK': 'suffix_filter.tokenizer', 'MEASURE': 'suffix_filter.sim_measure_type', 'THRESHOLD': 'suffix_filter.threshold'},
         filter_params={'suffix_filter': 'SuffixFilter'},
         ignore_if=['show_progress'], dataframe_return=('output_rows', 'output_header'),
         objects={}, build_results={}, calls=WORKER_CALLS,
         locals=dict(WORKER_LOCALS, l_filter_attr_index='Nat', r_filter_attr_index='Nat', handle_empty='Bool',
                     token_ordering=D('String', 'Nat'), l_row='Row', l_string='Cell', ltokens=L('String'), ordered_ltokens=L('Nat'), l_num_tokens='Nat', l_prefix_length='Int', l_suffix=L('Nat'), rtokens=L('String'), ordered_rtokens=L('Nat'), r_num_tokens='Nat', r_prefix_length='Int')),
    dict(lean='OverlapFilter_filter_tables_split', out='Loops2', file='py_stringsimjoin/filter/overlap_filter.py', cls=None, py='_filter_tables_split', model='SSJ.overlapFilterTablesSplit',
         pyparams=['ltable', 'rtable', 'l_columns', 'r_columns', 'l_key_attr', 'r_key_attr', 'l_filter_attr', 'r_filter_attr', 'overlap_filter', 'l_out_attrs', 'r_out_attrs', 'l_out_prefix', 'r_out_prefix', 'out_sim_score', 'show_progress'],
         params=[('ltable', L('Row')), ('rtable', L('Row'))] + WORKER_HEAD +
                [('l_filter_attr', 'String'), ('r_filter_attr', 'String'), ('overlap_filter', 'OverlapFilterObj'), ('tok', TOKFN)] +
                WORKER_OUT + [('out_sim_score', 'Bool')],
         ret=WORKER_RET, tokenizer='overlap_filter.tokenizer', 
         cfg_sources={'TOK': 'overlap_filter.tokenizer', 'MEASURE': 'overlap_filter.sim_measure_type', 'THRESHOLD': 'overlap_filter.threshold'},
         filter_params={'overlap_filter': 'OverlapFilter'},
         ignore_if=['show_progress'], dataframe_return=('output_rows', 'output_header'),
         objects={'inverted_index': 'InvertedIndex'}, build_results={}, calls=WORKER_CALLS,
         fn_aliases={'comp_fn': dict(COMP_ALIAS, src='COMP_OP_MAP[overlap_filter.comp_op]', lean='(compFn overlap_filter.compOp {0} {1})')},
         locals=dict(WORKER_LOCALS, l_filter_attr_index='Nat', r_filter_attr_index='Nat', handle_empty='Bool',
                     r_filter_attr_tokens=L('String'), candidate_overlap=D('Nat', 'Int'), overlap='Int')),
    # ------------------------------------------------------------------------------------------------
    # stage 3, group E: loops over DataFrame rows where the pandas part is a parameter
    # ------------------------------------------------------------------------------------------------
    dict(lean='build_dict_from_table', out='Loops2', file=GH, cls=None, py='build_dict_from_table',
         model='SSJ.buildDict', pyparams=['table', 'key_attr_index', 'join_attr_index', 'remove_null'],
         params=[('table', L('Row')), ('key_attr_index', 'Nat'), ('join_attr_index', 'Nat'),
                 ('remove_null', 'Bool')], ret=D('Cell', 'Row'), frames=['table'],
         locals={'table_dict': D('Cell', 'Row'), 'row': 'Row'}),
    dict(lean='get_pairs_with_missing_value', out='Loops2', file=MVH, cls=None,
         py='get_pairs_with_missing_value', model='SSJ.getPairsWithMissingValue',
         pyparams=['ltable', 'rtable', 'l_key_attr', 'r_key_attr', 'l_join_attr', 'r_join_attr', 'l_out_attrs',
                   'r_out_attrs', 'l_out_prefix', 'r_out_prefix', 'out_sim_score', 'show_progress'],
         # the pandas selections are parameters: the column labels, the rows of rtable and the three row
         # selections `ltable[pd.isnull(ltable[l_join_attr])]` etc.
         params=[('l_columns', L('String')), ('r_columns', L('String')), ('ltable_missing', L('Row')),
                 ('ltable_not_missing', L('Row')), ('rtable_missing', L('Row')), ('rtable', L('Row')),
                 ('l_key_attr', 'String'), ('r_key_attr', 'String'), ('l_join_attr', 'String'),
                 ('r_join_attr', 'String')] + WORKER_OUT + [('out_sim_score', 'Bool')],
         ret=WORKER_RET, unused_defaults=True,
         pandas_views={'l_columns': 'list(ltable.columns.values)', 'r_columns': 'list(rtable.columns.values)',
                       'ltable_missing': 'ltable[pd.isnull(ltable[l_join_attr])]',
                       'ltable_not_missing': 'ltable[pd.notnull(ltable[l_join_attr])]',
                       'rtable_missing': 'rtable[pd.isnull(rtable[r_join_attr])]'},
         frames=['rtable', 'ltable_missing', 'ltable_not_missing', 'rtable_missing'],
         ignore_if=['show_progress'], dataframe_return=('output_rows', 'output_header'),
         calls=WORKER_CALLS,
         locals=dict(WORKER_LOCALS, l_join_attr_index='Nat', r_join_attr_index='Nat', l_row='Row')),

    # ------------------------------------------------------------------------------------------------
    # stage 4: functions that may raise (`Except PyErr`): KeyError of `d[k]` ↦ PyErr.other, the tokenizer's
    # TypeError on a non-str ↦ PyErr.typeErr, exceptions of function-valued parameters are propagated
    # ------------------------------------------------------------------------------------------------
    dict(lean='filter_candset_split', out='Loops3', file='py_stringsimjoin/filter/filter.py', cls=None,
         py='_filter_candset_split', model='SSJ.filterCandset (the per-chunk mask loop)', raises=True,
         tyvars='{σ : Type}',
         pyparams=['candset', 'candset_l_key_attr', 'candset_r_key_attr', 'ltable', 'rtable', 'l_key_attr',
                   'r_key_attr', 'l_filter_attr', 'r_filter_attr', 'filter_object', 'show_progress'],
         # pandas parts as parameters: the three column-label lists, the rows of the three frames, and the
         # boolean-mask selection `candset[valid_rows]`
         params=[('candset_columns', L('String')), ('l_columns', L('String')), ('r_columns', L('String')),
                 ('candset', L('Row')), ('ltable', L('Row')), ('rtable', L('Row')),
                 ('candset_l_key_attr', 'String'), ('candset_r_key_attr', 'String'), ('l_key_attr', 'String'),
                 ('r_key_attr', 'String'), ('l_filter_attr', 'String'), ('r_filter_attr', 'String'),
                 ('filter_pair', Fn(['Cell', 'Cell'], ('Except', 'Bool'))),
                 ('select_rows', Fn([L('Row'), L('Bool')], 'σ'))],
         ret='σ',
         pandas_views={'l_columns': 'list(ltable.columns.values)', 'r_columns': 'list(rtable.columns.values)',
                       'candset_columns': 'list(candset.columns.values)'},
         frames=['candset', 'ltable', 'rtable'], mask_select={'candset': 'select_rows'},
         fn_params={'filter_object.filter_pair': dict(lean='filter_pair', args=['Cell', 'Cell'], ret='Bool',
                                                      raises=True)},
         calls={'build_dict_from_table': dict(lean='build_dict_from_table', args=[L('Row'), 'Nat', 'Nat', 'Bool'],
                                              kwargs=['table', 'key_attr_index', 'join_attr_index', 'remove_null'],
                                              ret=D('Cell', 'Row'),
                                              **{'import': (GH_MOD, 'build_dict_from_table')})},
         ignore_if=['show_progress'],
         locals={'l_key_attr_index': 'Nat', 'l_filter_attr_index': 'Nat', 'r_key_attr_index': 'Nat',
                 'r_filter_attr_index': 'Nat', 'ltable_dict': D('Cell', 'Row'), 'rtable_dict': D('Cell', 'Row'),
                 'candset_l_key_attr_index': 'Nat', 'candset_r_key_attr_index': 'Nat', 'valid_rows': L('Bool'),
                 'candset_row': 'Row', 'l_id': 'Cell', 'r_id': 'Cell', 'l_row': 'Row', 'r_row': 'Row'}),
    dict(lean='apply_matcher_split', out='Loops3', file='py_stringsimjoin/matcher/apply_matcher.py', cls=None,
         py='_apply_matcher_split', model='SSJ.applyMatcherSplit', raises=True, nan_is_value=True,
         pyparams=['candset', 'candset_l_key_attr', 'candset_r_key_attr', 'ltable', 'rtable', 'l_key_attr',
                   'r_key_attr', 'l_match_attr', 'r_match_attr', 'tokenizer', 'sim_function', 'threshold',
                   'comp_op', 'allow_missing', 'l_out_attrs', 'r_out_attrs', 'l_out_prefix', 'r_out_prefix',
                   'out_sim_score', 'show_progress', 'l_tokens', 'r_tokens'],
         params=[('candset_columns', L('String')), ('l_columns', L('String')), ('r_columns', L('String')),
                 ('candset', L('Row')), ('ltable', L('Row')), ('rtable', L('Row')),
                 ('candset_l_key_attr', 'String'), ('candset_r_key_attr', 'String'), ('l_key_attr', 'String'),
                 ('r_key_attr', 'String'), ('l_match_attr', 'String'), ('r_match_attr', 'String'),
                 ('tok', O(TOKFN)), ('sim', Fn(['SimArg', 'SimArg'], 'PyV')), ('threshold', 'PyV'),
                 ('comp_op', 'String'), ('allow_missing', 'Bool')] + WORKER_OUT +
                [('out_sim_score', 'Bool'), ('l_tokens', O(D('Cell', L('String')))),
                 ('r_tokens', O(D('Cell', L('String'))))],
         ret=WORKER_RET, tokenizer='tokenizer', param_map={'tokenizer': ('tok', O(TOKFN))},
         pandas_views={'l_columns': 'list(ltable.columns.values)', 'r_columns': 'list(rtable.columns.values)',
                       'candset_columns': 'list(candset.columns.values)'},
         frames=['candset', 'ltable', 'rtable'],
         fn_params={'sim_function': dict(lean='sim', args=['SimArg', 'SimArg'], ret='PyV')},
         fn_aliases={'comp_fn': COMP_ALIAS},
         calls=dict(WORKER_CALLS, build_dict_from_table=dict(
             lean='build_dict_from_table', args=[L('Row'), 'Nat', 'Nat', 'Bool'],
             kwargs=['table', 'key_attr_index', 'join_attr_index', 'remove_null'], ret=D('Cell', 'Row'),
             **{'import': (GH_MOD, 'build_dict_from_table')})),
         ignore_if=['show_progress'], dataframe_return=('output_rows', 'output_header'),
         # `l_apply_col_value` holds the raw cell, later (with a tokenizer) its tokens: the union type SimArg
         locals={'l_key_attr_index': 'Nat', 'l_match_attr_index': 'Nat', 'l_out_attrs_indices': L('Nat'),
                 'r_key_attr_index': 'Nat', 'r_match_attr_index': 'Nat', 'r_out_attrs_indices': L('Nat'),
                 'ltable_dict': D('Cell', 'Row'), 'rtable_dict': D('Cell', 'Row'),
                 'candset_l_key_attr_index': 'Nat', 'candset_r_key_attr_index': 'Nat',
                 'has_output_attributes': 'Bool', 'output_rows': L('Row'), 'tokenize_flag': 'Bool',
                 'use_cache': 'Bool', 'candset_row': 'Row', 'l_id': 'Cell', 'r_id': 'Cell', 'l_row': 'Row',
                 'r_row': 'Row', 'l_apply_col_value': 'SimArg', 'r_apply_col_value': 'SimArg',
                 'allow_pair': 'Bool', 'sim_score': 'PyV', 'output_row': 'Row', 'output_header': L('String')}),

    dict(lean='generate_tokens', out='Loops3', file='py_stringsimjoin/matcher/apply_matcher.py', cls=None,
         py='generate_tokens', model='SSJ.generateTokens / SSJ.tokenCache', raises=True,
         pyparams=['table', 'key_attr', 'join_attr', 'tokenizer'],
         # the two column selections of the non-null rows are the parameters
         params=[('key_column', L('Cell')), ('value_column', L('Cell')), ('tok', TOKFN)],
         ret=D('Cell', L('String')), tokenizer='tokenizer', param_map={'tokenizer': (None, None)},
         pandas_views={'table_nonnull': 'table[pd.notnull(table[join_attr])]'},
         expr_views={'table_nonnull[key_attr]': ('key_column', L('Cell')),
                     'table_nonnull[join_attr]': ('value_column', L('Cell'))},
         locals={}),

    dict(lean='format_statistic', out='Loops3', file='py_stringsimjoin/profiler/profiler.py', cls=None,
         py='_format_statistic', model='SSJ.Profiler.formatStatistic',
         params=[('stat', 'Nat'), ('stat_percent', 'PyV')], ret='String', str_of_float='strOfPercent', locals={}),
    dict(lean='profile_table_for_join', out='Loops3', file='py_stringsimjoin/profiler/profiler.py', cls=None,
         py='profile_table_for_join', model='SSJ.Profiler.profileTable', raises=True,
         pyparams=['input_table', 'profile_attrs'],
         # pandas parts as parameters: the column labels, the number of rows, and per attribute the two column
         # statistics `sum(pd.isnull(input_table[attr]))`, `input_table[attr].nunique(dropna=True)`
         params=[('columns', L('String')), ('num_rows', 'Nat'), ('missing_count', Fn(['String'], 'Nat')),
                 ('nunique', Fn(['String'], 'Nat')), ('profile_attrs', O(L('String')))],
         ret=L(T('String', 'String', 'String', 'String')),
         ignore_stmts=["validate_input_table(input_table, 'input table')"],
         raising_stmts={'validate_attr': dict(
             args=['String', '=input_table.columns', "='profile attribute'", "='input table'"],
             lean='if !(columns.contains {0}) then throw PyErr.assertion',
             **{'import': ('py_stringsimjoin.utils.validation', 'validate_attr')})},
         pandas_views={'num_rows': 'len(input_table)'},
         expr_views={'list(input_table.columns.values)': ('columns', L('String')),
                     'sum(pd.isnull(input_table[attr]))': ('(missing_count attr)', 'Nat'),
                     'input_table[attr].nunique(dropna=True)': ('(nunique attr)', 'Nat')},
         calls={'_format_statistic': dict(lean='format_statistic', args=['Nat', 'PyV'], ret='String')},
         tail_return=('profile_output',
                      ["output_header = ['Attribute', 'Unique values', 'Missing values', 'Comments']",
                       'output_df = pd.DataFrame(profile_output, columns=output_header)',
                       "return output_df.set_index('Attribute')"]),
         locals={'profile_output': L(T('String', 'String', 'String', 'String')), 'attr': 'String',
                 'missing_values': 'Nat', 'unique_values': 'Nat', 'unique_percent': 'PyV',
                 'missing_percent': 'PyV', 'formatted_unique_stat': 'String', 'formatted_missing_stat': 'String',
                 'comments': 'String'}),

]


# ------------------------------------------------------------------------------------------------
# helpers on the Python AST
# ------------------------------------------------------------------------------------------------
def names_in(node):
    return [n for n in ast.walk(node) if isinstance(n, ast.Name)]


def src_of(node):
    return ast.unparse(node)


def assigned_names(stmts):
    """names bound by plain/aug assignment or as for-targets anywhere inside `stmts`"""
    out = []
    for s in stmts:
        for n in ast.walk(s):
            if isinstance(n, (ast.Assign,)):
                for t in n.targets:
                    out += [x.id for x in ast.walk(t) if isinstance(x, ast.Name) and isinstance(x.ctx, ast.Store)]
            elif isinstance(n, ast.AugAssign):
                out += [x.id for x in ast.walk(n.target) if isinstance(x, ast.Name)]
            elif isinstance(n, ast.For):
                out += [x.id for x in ast.walk(n.target) if isinstance(x, ast.Name)]
    return out


class Tr:
    def __init__(self, spec, fname, module, func):
        self.spec = spec
        self.fname = fname
        self.module = module
        self.func = func
        self.params = dict(spec['params'])
        self.locals = dict(spec['locals'])
        self.ret = spec['ret']
        self.env = {}                 # names in scope -> type
        self.narrowed = set()         # Option-typed names known to be not None here
        self.loop_vars = []           # stack of sets
        self.out = []
        self.notes = []               # idioms that needed a side condition (reported in the summary)
        self.cache = None             # eliminated cache: dict(name, var, lo, hi, value)
        self.imports = self.collect_imports(module)
        self.view_used = False
        self.tmp = 0
        self.rebound_params = set()
        self.loop_bodies = []         # stack of the statement lists of the enclosing loops
        self.loop_local = {}          # id(loop body) -> names declared inside it
        self.objects = {}             # constructed objects: name -> dict(cls, args, built)
        self.aliases_bound = set()
        self.checked = set()
        self.extra_sources = []
        self.pre = []
        self.views_bound = set()
        self.no_raise_ctx = 0
        self.flags = {}               # Bool local -> Option-typed names it implies are not None
        self.mutated = set()
        self.multi_assigned = set()
        self.declared = set()

    # ---- errors ---------------------------------------------------------------------------------
    def fail(self, node, why):
        raise Untranslatable('%s:%s:%s: %s: `%s`' % (
            self.fname, getattr(node, 'lineno', '?'), getattr(node, 'col_offset', '?'), why,
            src_of(node)[:120] if isinstance(node, ast.AST) else node))

    # ---- module level facts ---------------------------------------------------------------------
    @staticmethod
    def collect_imports(module):
        imp = {}
        for s in module.body:
            if isinstance(s, ast.ImportFrom):
                for a in s.names:
                    imp[a.asname or a.name] = (s.module, a.name)
            elif isinstance(s, ast.Import):
                for a in s.names:
                    imp[a.asname or a.name] = (a.name, None)
        # a later module-level rebinding of an imported name would invalidate the idiom
        for s in module.body:
            if isinstance(s, (ast.FunctionDef, ast.ClassDef)) and s.name in imp:
                imp[s.name] = ('<rebound>', None)
            if isinstance(s, ast.Assign):
                for t in s.targets:
                    for n in names_in(t):
                        if n.id in imp:
                            imp[n.id] = ('<rebound>', None)
        return imp

    def need_import(self, node, name):
        if self.imports.get(name) != REQUIRED_IMPORTS[name]:
            self.fail(node, 'idiom needs `from %s import %s` (found %r)' % (
                REQUIRED_IMPORTS[name][0], REQUIRED_IMPORTS[name][1], self.imports.get(name)))

    def need_builtin(self, node, name):
        if name in self.imports or name in self.params or name in self.locals:
            self.fail(node, 'builtin `%s` is shadowed' % name)
        for s in self.module.body:
            if isinstance(s, (ast.FunctionDef, ast.ClassDef)) and s.name == name:
                self.fail(node, 'builtin `%s` is shadowed' % name)

    # ---- type utilities -------------------------------------------------------------------------
    def coerce(self, node, code, have, want):
        if have == want:
            return code
        if have == 'Nat' and want == 'Int':
            if code.isdigit():
                return '(%s : Int)' % code
            return '(Int.ofNat %s)' % code
        if have == 'NoneT' and isinstance(want, tuple) and want[0] == 'Option':
            return 'none'
        if isinstance(want, tuple) and want[0] == 'Option' and want[1] == have:
            return '(some %s)' % code
        if want == 'Rat' and have in ('Nat', 'Int'):
            if code.isdigit():
                return '(%s : Rat)' % code
            return '((%s : Int) : Rat)' % self.coerce(node, code, have, 'Int')
        if have == 'EmptyList' and (want == 'Row' or (isinstance(want, tuple) and want[0] in ('List',))):
            return '[]'
        if have == 'EmptyDict' and isinstance(want, tuple) and want[0] == 'Dict':
            return '[]'
        if have == 'EmptySet' and isinstance(want, tuple) and want[0] == 'Set':
            return '[]'
        if have == L('Cell') and want == 'Row':
            return code
        if want == 'SimArg':
            if have == 'Cell':
                return '(SimArg.raw %s)' % code
            if have == L('String'):
                return '(SimArg.toks %s)' % code
        if have == 'NaN':
            # numpy's NaN: a missing cell; as a score value the `PyV` that `scoreCell` maps to a missing cell
            if want == 'Cell':
                return 'Cell.missing'
            if want == 'PyV':
                return '(PyV.err PyErr.other)'
        if want == 'Cell':
            # a value stored into an output row
            if have == 'FloatLit':
                return '(Cell.flt %s)' % code
            if have == 'PyV':
                return '(scoreCell %s)' % code
            if have in ('Nat', 'Int'):
                return '(Cell.int %s)' % self.coerce(node, code, have, 'Int')
        if want == 'PyV':
            if have == 'FloatLit':
                return '(PyV.float %s)' % code
            if have in ('Nat', 'Int'):
                return '(PyV.int %s)' % self.coerce(node, code, have, 'Int')
        self.fail(node, 'type mismatch: have %s, want %s' % (self.show(have), self.show(want)))

    @staticmethod
    def show(t):
        if isinstance(t, tuple) and t[0] == 'Set':
            return 'set of %s' % lean_type(t[1])
        return t if isinstance(t, str) and t in ('EmptyList', 'EmptyDict', 'EmptySet', 'Cache', 'NoneT', 'FloatLit', 'NaN') else lean_type(t)

    def numeric_join(self, node, a, b):
        (ca, ta), (cb, tb) = a, b
        for t in (ta, tb):
            if t not in ('Nat', 'Int', 'Rat'):
                self.fail(node, 'numeric operand expected, have %s' % self.show(t))
        if ta == tb:
            return ca, cb, ta
        j = 'Rat' if 'Rat' in (ta, tb) else 'Int'
        return self.coerce(node, ca, ta, j), self.coerce(node, cb, tb, j), j

    # ---- expressions: returns (lean code, type) -------------------------------------------------
    def var(self, e):
        name = e.id
        if name == 'maxsize' and name not in self.env and name not in self.locals:
            self.need_import(e, 'maxsize')
            return 'maxsize', 'Int'          # SSJ.maxsize = sys.maxsize
        code = name
        if name in self.spec.get('param_map', {}) and name not in self.env:
            code, t = self.spec['param_map'][name]
            if code is None:
                self.fail(e, '`%s` may only be used where the table expects it' % name)
        elif name not in self.env:
            self.fail(e, 'variable not in scope / not in the type table')
        else:
            t = self.env[name]
        if t == 'Cache':
            self.fail(e, 'cache variable used outside the recognised cache idiom')
        if name in self.narrowed:
            if t == 'SimArg':
                # a value that is either a raw cell or a token list, known here to be still the raw cell
                return '(simArgCell %s)' % code, 'Cell'
            return '(%s.getD %s)' % (code, default_of(t[1])), t[1]
        return code, t

    def no_alias(self, e, last_use=None):
        """a mutated list/dict variable must never be aliased (the translation is functional) — except
        that a list may be appended to another one when this is its last use before it is rebound:
        `last_use = (stmts, k)` is the position of the appending statement"""
        if isinstance(e, ast.Name) and e.id in self.mutated:
            if last_use is not None and self.is_last_use(e.id, *last_use):
                return
            self.fail(e, 'aliasing of a mutated list/dict variable')

    def is_last_use(self, name, stmts, k):
        """After the statement stmts[k] (which stores the list `name` into another list) the next thing that
        happens to `name` on every path is an assignment of a fresh value: `name` is local to an enclosing
        loop (declared inside its body, definitely assigned before use in every iteration), and a
        definite-assignment analysis of the continuation of stmts[k], started in the state "unassigned",
        finds no use before an assignment."""
        target = stmts[k]
        for body in reversed(self.loop_bodies):
            if name in self.loop_local.get(id(body), set()):
                break
        else:
            # declared at function level: the continuation is followed up to the end of the function
            body = self.top_body

        def path(block):
            for i, st in enumerate(block):
                if st is target:
                    return [(block, i, None)]
                subs = []
                if isinstance(st, ast.If):
                    subs = [st.body, st.orelse]
                elif isinstance(st, ast.For):
                    subs = [st.body]
                for sub in subs:
                    p_ = path(sub)
                    if p_ is not None:
                        return [(block, i, st)] + p_
            return None
        frames = path(body)
        if frames is None:
            return False
        assigned = False
        for depth in range(len(frames) - 1, -1, -1):
            block, i, _ = frames[depth]
            ok, assigned = self.definitely_assigned(block[i + 1:], name, assigned)
            if not ok:
                return False
            owner = frames[depth - 1][2] if depth > 0 else None
            if isinstance(owner, ast.For):
                # the inner loop may run again: its body, entered with the list already given away
                if not self.definitely_assigned(owner.body, name, False)[0]:
                    return False
                assigned = False
        return True

    def expr(self, e):
        if not isinstance(e, (ast.Constant, ast.Name)) and src_of(e) in self.spec.get('expr_views', {}) \
                and not isinstance(e, ast.Subscript):
            # a pandas expression that is a PARAMETER of the generated function (literal form checked); it may
            # mention variables of the function, which become the arguments of the parameter
            code, t = self.spec['expr_views'][src_of(e)]
            for n in names_in(e):
                if n.id in self.locals and n.id not in self.env:
                    self.fail(e, 'variable `%s` of a pandas expression is not in scope' % n.id)
            note = '%s:%d `%s` is the parameter expression `%s` of the generated function' % (
                self.fname, e.lineno, src_of(e), code)
            if note not in self.notes:
                self.notes.append(note)
            return code, t
        if isinstance(e, ast.Constant):
            v = e.value
            if isinstance(v, bool):
                return ('true' if v else 'false'), 'Bool'
            if isinstance(v, int):
                return str(v), 'Nat'
            if isinstance(v, float):
                from fractions import Fraction
                fr = Fraction(v)
                if fr.denominator == 1:
                    return '(%d : Rat)' % fr.numerator, 'FloatLit'
                return '((%d : Rat) / %d)' % (fr.numerator, fr.denominator), 'FloatLit'
            if isinstance(v, str):
                return json.dumps(v, ensure_ascii=False), 'String'
            if v is None:
                return 'none', 'NoneT'
            self.fail(e, 'constant outside the table')
        if isinstance(e, ast.UnaryOp) and isinstance(e.op, ast.USub) and isinstance(e.operand, ast.Constant) \
                and isinstance(e.operand.value, int) and not isinstance(e.operand.value, bool):
            return '(-%d)' % e.operand.value, 'Int'
        if isinstance(e, ast.Name):
            return self.var(e)
        if isinstance(e, ast.List):
            if not e.elts:
                return '[]', 'EmptyList'
            parts = []
            for x in e.elts:
                self.no_alias(x)
                parts.append(self.expr(x))
            t0 = parts[0][1]
            for (c, t), x in zip(parts, e.elts):
                if t != t0:
                    self.fail(x, 'heterogeneous list literal')
            return '[%s]' % ', '.join(c for c, _ in parts), L(t0)
        if isinstance(e, ast.Dict):
            if e.keys:
                self.fail(e, 'non-empty dict literal')
            return '[]', 'EmptyDict'
        if isinstance(e, ast.Tuple):
            if len(e.elts) < 2:
                self.fail(e, 'tuple with fewer than two components')
            for x in e.elts:
                self.no_alias(x)
            parts = [self.expr(x) for x in e.elts]
            for (c, t), x in zip(parts, e.elts):
                if t in ('EmptyList', 'EmptyDict', 'NoneT'):
                    self.fail(x, 'untyped literal inside a tuple (only allowed where the tuple type is known)')
            return '(%s)' % ', '.join(c for c, _ in parts), T(*[t for _, t in parts])
        if isinstance(e, ast.Attribute):
            return self.attribute(e)
        if isinstance(e, ast.Subscript):
            return self.subscript(e)
        if isinstance(e, ast.BinOp):
            return self.binop(e)
        if isinstance(e, ast.Compare):
            return self.compare(e)
        if isinstance(e, ast.BoolOp):
            self.no_raise_ctx += 1
            try:
                parts = [self.expr(v) for v in e.values]
            finally:
                self.no_raise_ctx -= 1
            for (c, t), v in zip(parts, e.values):
                if t != 'Bool':
                    self.fail(v, '`and`/`or` operand must be a Bool expression, have %s' % self.show(t))
            op = ' && ' if isinstance(e.op, ast.And) else ' || '
            return '(%s)' % op.join(c for c, _ in parts), 'Bool'
        if isinstance(e, ast.UnaryOp) and isinstance(e.op, ast.Not):
            c, narrow = self.truthy(e.operand)
            if c.startswith('(!') and c.endswith('.isEmpty)'):
                return c[2:-1], 'Bool'          # not (not xs.isEmpty)
            return '(!%s)' % c, 'Bool'
        if isinstance(e, ast.Call):
            return self.call(e)
        if isinstance(e, ast.IfExp):
            c, _ = self.truthy(e.test)
            self.no_raise_ctx += 1
            try:
                (a, ta), (b, tb) = self.expr(e.body), self.expr(e.orelse)
            finally:
                self.no_raise_ctx -= 1
            if ta in ('Nat', 'Int', 'Rat') and tb in ('Nat', 'Int', 'Rat'):
                a, b, ta = self.numeric_join(e, (a, ta), (b, tb))
            elif ta != tb:
                self.fail(e, 'conditional expression with branches of types %s and %s' % (self.show(ta), self.show(tb)))
            return '(if %s then %s else %s)' % (c, a, b), ta
        self.fail(e, 'expression outside the table')

    def expr_expect(self, e, want):
        """translate `e` where the type is known (tuples are coerced componentwise)"""
        if isinstance(e, ast.Tuple) and isinstance(want, tuple) and want[0] == 'Prod':
            comps, w = [], want
            for i in range(len(e.elts) - 1):
                if not (isinstance(w, tuple) and w[0] == 'Prod'):
                    self.fail(e, 'tuple has more components than the type %s' % self.show(want))
                comps.append(w[1])
                w = w[2]
            comps.append(w)
            for x in e.elts:
                self.no_alias(x)
            return '(%s)' % ', '.join(self.expr_expect(x, c) for x, c in zip(e.elts, comps))
        if isinstance(e, ast.Tuple) and want == 'NumTok' and len(e.elts) == 2:
            # a Python tuple (token, occurrence), compared lexicographically: the structure `NumTok`
            return '(NumTok.mk %s %s)' % (self.expr_expect(e.elts[0], 'Nat'), self.expr_expect(e.elts[1], 'Nat'))
        c, t = self.expr(e)
        return self.coerce(e, c, t, want)

    def attribute(self, e):
        key = src_of(e)
        if key == 'np.NaN':
            if self.imports.get('np') != ('numpy', None):
                self.fail(e, '`np` must be numpy')
            return 'Cell.missing', ('NaN' if self.spec.get('nan_is_value') else 'Cell')
        if key in self.spec.get('consts', {}):
            return self.object_const(e, key)
        if isinstance(e.value, ast.Name) and e.value.id in self.env:
            rt = self.env[e.value.id]
            key = (rt, e.attr)
            if key in ATTRS:
                proj, t = ATTRS[key]
                return '%s.%s' % (e.value.id, proj), t
        self.fail(e, 'attribute outside the table')

    def object_const(self, e, key):
        """`self.X` that `__init__` sets, once and unconditionally, to the literal in the type table"""
        lit, t = self.spec['consts'][key]
        cls = [c for c in self.module.body if isinstance(c, ast.ClassDef) and c.name == self.spec['cls']][0]
        inits = [m for m in cls.body if isinstance(m, ast.FunctionDef) and m.name == '__init__']
        if len(inits) != 1:
            self.fail(e, '__init__ not found exactly once')
        hits = [st for st in ast.walk(cls) if isinstance(st, (ast.Assign, ast.AugAssign)) and any(
            src_of(t_) == key for t_ in (st.targets if isinstance(st, ast.Assign) else [st.target]))]
        if len(hits) != 1 or hits[0] not in inits[0].body or not isinstance(hits[0], ast.Assign) \
                or len(hits[0].targets) != 1 or src_of(hits[0].value) != lit:
            self.fail(e, 'the class must set `%s = %s` exactly once, unconditionally in __init__' % (key, lit))
        note = '%s:%d `%s` is the constant %s set by __init__' % (self.fname, hits[0].lineno, key, lit)
        if note not in self.notes:
            self.notes.append(note)
        return lit, t

    def subscript(self, e):
        if src_of(e) in self.spec.get('expr_views', {}):
            # a pandas column selection that is a PARAMETER of the generated function (literal form checked)
            code, t = self.spec['expr_views'][src_of(e)]
            base = e.value.id if isinstance(e.value, ast.Name) else None
            if base in self.spec.get('pandas_views', {}) and base not in self.views_bound:
                self.fail(e, '`%s` is used before it is bound' % base)
            note = '%s:%d `%s` is the parameter `%s` of the generated function' % (self.fname, e.lineno, src_of(e), code)
            if note not in self.notes:
                self.notes.append(note)
            return code, t
        # cache read
        if isinstance(e.value, ast.Name) and self.cache and e.value.id == self.cache['name']:
            return self.cache_read(e)
        sl = e.slice
        if isinstance(e.value, ast.Name) and e.value.id in self.spec.get('build_results', {}):
            # `cached_data['k']` where cached_data = obj.build(…): a field of the built record
            obj = self.spec['build_results'][e.value.id]
            o = self.objects.get(obj)
            if not o or not o.get('built') or o.get('result_var') != e.value.id:
                self.fail(e, '`%s` is not the result of `%s.build(…)`' % (e.value.id, obj))
            keys = CLASSES[o['cls']]['keys']
            if not (isinstance(sl, ast.Constant) and sl.value in keys):
                self.fail(e, 'key of the dict returned by build must be one of %s' % sorted(keys))
            field = keys[sl.value]
            return '%s.%s' % (obj, field), dict(RECORD_FIELDS[CLASSES[o['cls']]['record']])[field]
        if isinstance(e.value, ast.Name) and e.value.id in self.spec.get('mask_select', {}) \
                and isinstance(sl, ast.Name):
            # pandas boolean-mask selection `frame[mask]`: the selection function is a parameter
            fr, tf = self.expr(e.value)
            mk, tm = self.expr(sl)
            if tm != L('Bool'):
                self.fail(e, 'mask of type %s' % self.show(tm))
            fn = self.spec['mask_select'][e.value.id]
            return '(%s %s %s)' % (fn, fr, mk), self.params[fn][2]
        if isinstance(sl, ast.Slice):
            if sl.step is not None:
                self.fail(e, 'slice with a step')
            c, t = self.expr(e.value)
            if not (isinstance(t, tuple) and t[0] == 'List'):
                self.fail(e, 'slice of a non-list')
            zero = lambda x: x is None or (isinstance(x, ast.Constant) and x.value == 0
                                           and not isinstance(x.value, bool))
            full = lambda x: x is None or src_of(x) == 'len(%s)' % src_of(e.value)
            if zero(sl.lower) and sl.upper is not None and not full(sl.upper):
                bound, fn = sl.upper, 'pyTake'          # xs[0:k], xs[:k]
            elif full(sl.upper) and sl.lower is not None and not zero(sl.lower):
                bound, fn = sl.lower, 'pyDrop'          # xs[k:], xs[k:len(xs)]
            else:
                self.fail(e, 'only slices `xs[0:k]`, `xs[:k]`, `xs[k:]`, `xs[k:len(xs)]` are in the table')
            k, tk = self.expr(bound)
            if tk not in ('Nat', 'Int'):
                self.fail(bound, 'slice bound must be an integer')
            return '(%s %s %s)' % (fn, c, self.coerce(bound, k, tk, 'Int')), t
        c, t = self.expr(e.value)
        if isinstance(t, tuple) and t[0] == 'Dict' and isinstance(e.ctx, ast.Load):
            # d[k]: KeyError when the key is absent
            k, tk = self.expr(sl)
            k = self.coerce(sl, k, tk, t[1])
            get = 'Dict.getPy?' if t[1] == 'Cell' else 'Dict.get?'      # cell keys: Python equality (1 == 1.0 == True)
            return self.raising(e, '(match %s %s %s with | some v => pure v | none => throw PyErr.other)' % (get, c, k), t[2])
        if isinstance(t, tuple) and t[0] == 'Prod':
            if isinstance(sl, ast.Constant) and sl.value in (0, 1) and not isinstance(sl.value, bool):
                return '%s.%d' % (c, sl.value + 1), t[sl.value + 1]
            self.fail(e, 'tuple index must be the constant 0 or 1')
        if isinstance(sl, ast.UnaryOp) and isinstance(sl.op, ast.USub):
            self.fail(sl, 'negative index (counts from the end in Python)')
        i, ti = self.expr(sl)
        if ti == 'Int':
            # an index the type table only knows as an int: `.toNat` (a negative index, which wraps around
            # in Python, reads position 0 — outside the model's domain, see NOTES.md)
            i, ti = '(%s).toNat' % i, 'Nat'
        if ti != 'Nat':
            self.fail(sl, 'list index must have type Nat or Int, have %s' % self.show(ti))
        if t == 'Row':
            return '(Row.cell %s %s)' % (c, i), 'Cell'
        if t == L('Row'):
            return '(%s.getD %s [])' % (c, i), 'Row'
        if t == L(L('Nat')):
            return '(%s.getD %s [])' % (c, i), L('Nat')
        if isinstance(t, tuple) and t[0] == 'List' and t[1] in ('Nat', 'τ'):
            return '(%s.getD %s %s)' % (c, i, default_of(t[1])), t[1]
        self.fail(e, 'indexing a value of type %s is outside the table' % self.show(t))

    def binop(self, e):
        a, b = self.expr(e.left), self.expr(e.right)
        if isinstance(e.op, ast.Add):
            if a[1] == 'String' and b[1] == 'String':
                return '(%s ++ %s)' % (a[0], b[0]), 'String'
            ca, cb, t = self.numeric_join(e, a, b)
            return '(%s + %s)' % (ca, cb), t
        if isinstance(e.op, ast.Sub):
            for (c, t) in (a, b):
                if t not in ('Nat', 'Int', 'Rat'):
                    self.fail(e, 'numeric operand expected')
            j = 'Rat' if 'Rat' in (a[1], b[1]) else 'Int'
            return '(%s - %s)' % (self.coerce(e, a[0], a[1], j), self.coerce(e, b[0], b[1], j)), j
        if isinstance(e.op, ast.Mult) and a[1] == 'PyV' and b[1] in ('Nat', 'Int', 'PyV'):
            return '(PyV.mul %s %s)' % (a[0], self.coerce(e, b[0], b[1], 'PyV')), 'PyV'
        if isinstance(e.op, ast.Mult):
            ca, cb, t = self.numeric_join(e, a, b)
            return '(%s * %s)' % (ca, cb), t
        if isinstance(e.op, ast.Div) and a[1] == 'PyV' and b[1] == 'PyV' and self.spec.get('raises') \
                and isinstance(e.right, ast.Call) and isinstance(e.right.func, ast.Name) \
                and e.right.func.id == 'float' and len(e.right.args) == 1:
            # float(a) / float(n): ZeroDivisionError when n == 0
            n_, tn = self.expr(e.right.args[0])
            return self.raising(e, '(if %s == 0 then throw PyErr.zeroDiv else pure (PyV.div %s %s))' % (n_, a[0], b[0]), 'PyV')
        if isinstance(e.op, ast.Div) and a[1] == 'PyV' and b[1] == 'PyV':
            return '(PyV.div %s %s)' % (a[0], b[0]), 'PyV'
        if isinstance(e.op, ast.Div):
            # true division: a float in Python, here the exact rational (exact as long as the operands are
            # below 2^53 and the quotient is a dyadic rational or only floored/compared, see NOTES.md)
            for (c, t) in (a, b):
                if t not in ('Nat', 'Int', 'Rat'):
                    self.fail(e, 'numeric operand expected')
            return '(%s / %s)' % (self.coerce(e, a[0], a[1], 'Rat'), self.coerce(e, b[0], b[1], 'Rat')), 'Rat'
        self.fail(e, 'binary operator outside the table')

    def compare(self, e):
        operands = [e.left] + list(e.comparators)
        # `x is None` / `x is not None`
        if len(e.ops) == 1 and isinstance(e.ops[0], (ast.Is, ast.IsNot)):
            if not (isinstance(e.comparators[0], ast.Constant) and e.comparators[0].value is None):
                self.fail(e, '`is` is only in the table against None')
            c, t = self.expr_raw_option(e.left)
            return ('%s.isNone' if isinstance(e.ops[0], ast.Is) else '%s.isSome') % c, 'Bool'
        if len(e.ops) == 1 and isinstance(e.ops[0], (ast.In, ast.NotIn)) and isinstance(e.comparators[0], ast.List) \
                and e.comparators[0].elts and all(isinstance(x, ast.Constant) and x.value in MEASURES
                                                  for x in e.comparators[0].elts):
            c, t = self.expr(e.left)
            if t != 'Measure':
                self.fail(e, 'membership in a list of measure names: %s' % self.show(t))
            alts = ' || '.join('(%s == %s)' % (c, MEASURES[x.value]) for x in e.comparators[0].elts)
            return ('(%s)' if isinstance(e.ops[0], ast.In) else '(!(%s))') % alts, 'Bool'
        vals = [self.expr(x) for x in operands]
        parts = []
        for i, op in enumerate(e.ops):
            a, b = vals[i], vals[i + 1]
            if isinstance(op, (ast.Eq, ast.NotEq)):
                if a[1] in ('Nat', 'Int') and b[1] in ('Nat', 'Int'):
                    ca, cb, _ = self.numeric_join(e, a, b)
                elif a[1] == b[1] and a[1] in ('String', 'Bool', 'τ', 'Cell'):
                    ca, cb = a[0], b[0]
                elif a[1] == 'Measure' and b[1] == 'String' and isinstance(operands[i + 1], ast.Constant) \
                        and operands[i + 1].value in MEASURES:
                    ca, cb = a[0], MEASURES[operands[i + 1].value]
                elif isinstance(b[1], tuple) and b[1][0] == 'Option' and b[1][1] == a[1] and a[1] in ('Nat', 'String', 'τ'):
                    ca, cb = '(some %s)' % a[0], b[0]        # x == opt
                elif isinstance(a[1], tuple) and a[1][0] == 'Option' and a[1][1] == b[1] and b[1] in ('Nat', 'String', 'τ'):
                    ca, cb = a[0], '(some %s)' % b[0]        # opt == x
                else:
                    self.fail(e, '==/!= on types %s, %s is outside the table' % (self.show(a[1]), self.show(b[1])))
                parts.append('(%s %s %s)' % (ca, '==' if isinstance(op, ast.Eq) else '!=', cb))
            elif isinstance(op, (ast.Lt, ast.Gt)) and a[1] == 'τ' and b[1] == 'τ':
                parts.append('decide (%s %s %s)' % (a[0], '<' if isinstance(op, ast.Lt) else '>', b[0]))
            elif isinstance(op, (ast.Lt, ast.LtE, ast.Gt, ast.GtE)):
                ca, cb, _ = self.numeric_join(e, a, b)
                sym = {ast.Lt: '<', ast.LtE: '≤', ast.Gt: '>', ast.GtE: '≥'}[type(op)]
                parts.append('decide (%s %s %s)' % (ca, sym, cb))
            else:
                self.fail(e, 'comparison operator outside the table')
        if len(parts) == 1:
            return '(%s)' % parts[0] if parts[0].startswith('decide') else parts[0], 'Bool'
        return '(%s)' % ' && '.join(parts), 'Bool'

    def expr_raw_option(self, e):
        """an expression whose Option-ness is being inspected (`is None`): no narrowing applied"""
        if isinstance(e, ast.Name):
            code = e.id
            if e.id in self.spec.get('param_map', {}) and e.id not in self.env \
                    and self.spec['param_map'][e.id][0] is not None:
                code, t = self.spec['param_map'][e.id]
            elif e.id not in self.env:
                self.fail(e, 'variable not in scope / not in the type table')
            else:
                t = self.env[e.id]
            if not (isinstance(t, tuple) and t[0] == 'Option'):
                self.fail(e, '`is None` test on a non-Option variable (%s)' % self.show(t))
            return code, t
        c, t = self.expr(e)
        if not (isinstance(t, tuple) and t[0] == 'Option'):
            self.fail(e, '`is None` test on a non-Option expression (%s)' % self.show(t))
        return '(%s)' % c, t

    def truthy(self, e):
        """condition position: returns (Bool code, name narrowed to not-None when the code is true)"""
        if isinstance(e, ast.Name) and e.id in self.env and e.id not in self.narrowed:
            t = self.env[e.id]
            if isinstance(t, tuple) and t[0] == 'Option' and isinstance(t[1], tuple) and t[1][0] == 'List':
                # None and [] are both falsy
                return '(!(%s.getD []).isEmpty)' % e.id, e.id
        if isinstance(e, ast.Compare) and len(e.ops) == 1 and isinstance(e.ops[0], ast.IsNot) \
                and isinstance(e.left, ast.Name):
            c, _ = self.expr(e)
            return c, e.left.id
        names = self.not_none_names(e)
        if names and isinstance(e, ast.BoolOp):
            c, _ = self.expr(e)
            return c, names
        if isinstance(e, ast.Name) and e.id in self.flags and e.id in self.env:
            # a flag that is only ever set to True under `if X is not None` (X never reassigned)
            return e.id, list(self.flags[e.id])
        c, t = self.expr(e)
        if t == 'Bool':
            return c, None
        if t == 'Row' or (isinstance(t, tuple) and t[0] in ('List', 'Dict')):
            return '(!%s.isEmpty)' % c, None
        if t == 'Cell' and isinstance(e, ast.Name) and e.id in self.spec.get('string_cells', []):
            # a join-attribute value already known not to be missing: a Python str, falsy iff empty
            return '(%s.strVal != "")' % c, None
        self.fail(e, 'truth value of type %s is outside the table' % self.show(t))

    @staticmethod
    def not_none_names(test):
        """`X is not None` or a conjunction of such tests -> [X, …]"""
        if isinstance(test, ast.Compare) and len(test.ops) == 1 and isinstance(test.ops[0], ast.IsNot) \
                and isinstance(test.left, ast.Name) and isinstance(test.comparators[0], ast.Constant) \
                and test.comparators[0].value is None:
            return [test.left.id]
        if isinstance(test, ast.BoolOp) and isinstance(test.op, ast.And):
            out = []
            for v in test.values:
                r = Tr.not_none_names(v)
                if not r:
                    return []
                out += r
            return out
        return []

    def compute_flags(self):
        """Bool locals that are only assigned the constants False/True, every `= True` sitting directly in the
        body of an `if` whose test is a conjunction of `X is not None` for never-assigned parameters X:
        the flag being true implies those X are not None"""
        assigns = {}
        for node in ast.walk(self.func):
            if isinstance(node, (ast.Assign, ast.AugAssign)):
                tg = node.targets if isinstance(node, ast.Assign) else [node.target]
                for t in tg:
                    for n in names_in(t):
                        assigns.setdefault(n.id, []).append(node)
        all_assigned = set(assigns)
        owner = {}
        for node in ast.walk(self.func):
            if isinstance(node, ast.If):
                for st in node.body:
                    owner[id(st)] = node
        for name, nodes in assigns.items():
            if self.locals.get(name) != 'Bool':
                continue
            implied = None
            ok = True
            for a in nodes:
                if not (isinstance(a, ast.Assign) and len(a.targets) == 1 and isinstance(a.targets[0], ast.Name)
                        and isinstance(a.value, ast.Constant) and isinstance(a.value.value, bool)):
                    ok = False
                    break
                if a.value.value is True:
                    ifn = owner.get(id(a))
                    names = self.not_none_names(ifn.test) if ifn is not None else []
                    if not names or any(n in all_assigned for n in names):
                        ok = False
                        break
                    implied = set(names) if implied is None else implied & set(names)
            if ok and implied:
                self.flags[name] = sorted(implied)

    def call(self, e):
        if e.keywords and not (isinstance(e.func, ast.Name) and e.func.id == 'sorted') \
                and not (src_of(e.func) in self.spec.get('calls', {})
                         and self.spec['calls'][src_of(e.func)].get('kwargs')):
            self.fail(e, 'keyword arguments outside the table')
        f = e.func
        if src_of(f) in self.spec.get('fn_params', {}):
            # a function-valued parameter (user-supplied sim_function, the filter object's filter_pair)
            ent = self.spec['fn_params'][src_of(f)]
            if e.keywords or len(e.args) != len(ent['args']):
                self.fail(e, 'wrong number of arguments for `%s`' % src_of(f))
            args = [self.expr_expect(a, w) for a, w in zip(e.args, ent['args'])]
            code = '(%s %s)' % (ent['lean'], ' '.join(args))
            if ent.get('raises'):
                return self.raising(e, code, ent['ret'])
            return code, ent['ret']
        if isinstance(f, ast.Subscript) and isinstance(f.value, ast.Name) and f.value.id == 'COMP_OP_MAP' \
                and len(e.args) == 2:
            # COMP_OP_MAP[op](a, b): the stage-1 generated comparison table (`compFn`)
            if self.imports.get('COMP_OP_MAP') != ('py_stringsimjoin.utils.generic_helper', 'COMP_OP_MAP'):
                self.fail(e, 'COMP_OP_MAP must be imported from utils.generic_helper')
            op, top = self.expr(f.slice)
            if top != 'String':
                self.fail(f.slice, 'comparison operator must be a string')
            vs = []
            for a in e.args:
                c, t = self.expr(a)
                if t in ('Nat', 'Int'):
                    c = '(PyV.int %s)' % self.coerce(a, c, t, 'Int')
                elif t != 'PyV':
                    self.fail(a, 'operand of a COMP_OP_MAP comparison: %s' % self.show(t))
                vs.append(c)
            return '(compFn %s %s %s)' % (op, vs[0], vs[1]), 'Bool'
        if isinstance(f, ast.Name):
            n = f.id
            if n == 'len' and len(e.args) == 1:
                self.need_builtin(e, 'len')
                c, t = self.expr(e.args[0])
                if t == 'Row' or (isinstance(t, tuple) and t[0] in ('List', 'Dict', 'Set')):
                    return '%s.length' % c, 'Nat'
                if t == 'Cell':
                    # a join-attribute value (a Python str): number of characters
                    return '%s.strVal.length' % c, 'Nat'
                self.fail(e, 'len of %s' % self.show(t))
            if n in ('min', 'max') and len(e.args) == 2:
                self.need_builtin(e, n)
                ca, cb, t = self.numeric_join(e, self.expr(e.args[0]), self.expr(e.args[1]))
                return '(%s %s %s)' % (n, ca, cb), t
            if n == 'sorted':
                return self.sorted_call(e)
            if n in CFG_CALLS:
                return self.cfg_call(e)
            if n == 'abs' and len(e.args) == 1:
                self.need_builtin(e, 'abs')
                c, t = self.expr(e.args[0])
                if t not in ('Nat', 'Int'):
                    self.fail(e, 'abs of %s' % self.show(t))
                return '(intAbs %s)' % self.coerce(e, c, t, 'Int'), 'Int'
            if n == 'floor' and len(e.args) == 1:
                self.need_import(e, 'floor')
                c, t = self.expr(e.args[0])
                if t != 'Rat':
                    self.fail(e, 'floor of %s (only of a true division)' % self.show(t))
                return '(Rat.floor %s)' % c, 'Int'
            if n == 'int' and len(e.args) == 1:
                self.need_builtin(e, 'int')
                c, t = self.expr(e.args[0])
                if t == 'Int':
                    return c, 'Int'
                if t == 'Nat':
                    return self.coerce(e, c, t, 'Int'), 'Int'
                if t == 'Rat':
                    return '(truncRat %s)' % c, 'Int'
                if t == 'Bool':
                    return '(if %s then (1 : Int) else 0)' % c, 'Int'
                self.fail(e, 'int of %s' % self.show(t))
            if n in self.spec.get('calls', {}):
                return self.table_call(e, n)
            if n in self.spec.get('fn_aliases', {}):
                ent = self.spec['fn_aliases'][n]
                if n not in self.aliases_bound:
                    self.fail(e, '`%s` is called before it is bound' % n)
                if len(e.args) != len(ent['args']):
                    self.fail(e, 'wrong number of arguments for `%s`' % n)
                args = [self.expr_expect(a, w) for a, w in zip(e.args, ent['args'])]
                return ent['lean'].format(*args), ent['ret']
            if n == 'float' and len(e.args) == 1:
                self.need_builtin(e, 'float')
                c, t = self.expr(e.args[0])
                if t not in ('Nat', 'Int'):
                    self.fail(e, 'float of %s' % self.show(t))
                return '(PyV.toFloat (PyV.int %s))' % self.coerce(e, c, t, 'Int'), 'PyV'
            if n == 'round' and len(e.args) == 2:
                self.need_builtin(e, 'round')
                c, t = self.expr(e.args[0])
                d, td = self.expr(e.args[1])
                if t != 'PyV' or td != 'Nat':
                    self.fail(e, 'round(%s, %s)' % (self.show(t), self.show(td)))
                return '(PyV.round %s (PyV.int %s))' % (c, self.coerce(e, d, td, 'Int')), 'PyV'
            if n == 'str' and len(e.args) == 1:
                self.need_builtin(e, 'str')
                c, t = self.expr(e.args[0])
                if t in ('Nat', 'Int'):
                    return '(toString %s)' % c, 'String'
                if t == 'PyV' and self.spec.get('str_of_float'):
                    # str(float): CPython's repr — a modelled function from the type table
                    return '(%s %s)' % (self.spec['str_of_float'], c), 'String'
                self.fail(e, 'str of %s' % self.show(t))
            if n == 'zip' and len(e.args) == 2:
                self.need_builtin(e, 'zip')
                (a, ta), (b, tb) = self.expr(e.args[0]), self.expr(e.args[1])
                if not (isinstance(ta, tuple) and ta[0] == 'List' and isinstance(tb, tuple) and tb[0] == 'List'):
                    self.fail(e, 'zip of %s and %s' % (self.show(ta), self.show(tb)))
                return '(List.zip %s %s)' % (a, b), L(P(ta[1], tb[1]))
            if n == 'dict' and len(e.args) == 1:
                # dict(pairs): later pairs overwrite earlier ones with the same key
                self.need_builtin(e, 'dict')
                c, t = self.expr(e.args[0])
                if not (isinstance(t, tuple) and t[0] == 'List' and isinstance(t[1], tuple) and t[1][0] == 'Prod'):
                    self.fail(e, 'dict of %s' % self.show(t))
                setf = 'Dict.setPy' if t[1][1] == 'Cell' else 'Dict.set'
                return '(List.foldl (fun d p => %s d p.1 p.2) [] %s)' % (setf, c), D(t[1][1], t[1][2])
            if n == 'tuple' and len(e.args) == 1:
                self.need_builtin(e, 'tuple')
                c, t = self.expr(e.args[0])
                if t != 'Row':
                    self.fail(e, 'tuple of %s' % self.show(t))
                return c, 'Row'
            if n == 'set' and not e.args:
                self.need_builtin(e, 'set')
                return '[]', 'EmptySet'
            self.fail(e, 'call outside the table')
        if isinstance(f, ast.Attribute):
            m = f.attr
            key = src_of(f)
            if key in self.spec.get('calls', {}):
                return self.table_call(e, key)
            if m == 'apply' and len(e.args) == 1 and not e.keywords \
                    and src_of(e.args[0]) == self.spec.get('tokenizer', 'self.tokenizer') + '.tokenize' \
                    and 'tok' in self.env and self.env['tok'][0] == 'Fn':
                # Series.apply(tokenizer.tokenize): the tokenizer on every value, TypeError on the first non-str
                c, t = self.expr(f.value)
                if t != L('Cell'):
                    self.fail(e, '.apply on %s' % self.show(t))
                return self.raising(e, '(List.mapM (fun c => if c.isStr then pure (tok c.strVal) else '
                                       'throw PyErr.typeErr) %s)' % c, L(self.env['tok'][2]))
            if isinstance(f.value, ast.Name) and m in ('find_candidates', '_filter_suffix'):
                r = self.object_method(e, f.value.id, m)
                if r is not None:
                    return r
            if isinstance(f.value, ast.Constant) and f.value.value == '' and m == 'join' and len(e.args) == 1 \
                    and isinstance(e.args[0], ast.List) and not e.keywords:
                parts = [self.expr(x) for x in e.args[0].elts]
                for (c, t), x in zip(parts, e.args[0].elts):
                    if t != 'String':
                        self.fail(x, "''.join of %s" % self.show(t))
                return '(String.join [%s])' % ', '.join(c for c, _ in parts), 'String'
            if key == 'pd.isnull' and len(e.args) == 1:
                self.need_import(e, 'pd')
                c, t = self.expr(e.args[0])
                if t != 'Cell':
                    self.fail(e, 'pd.isnull of %s' % self.show(t))
                return '%s.isMissing' % c, 'Bool'
            if len(e.args) == 1 and 'tok' in self.env \
                    and key == self.spec.get('tokenizer', 'self.tokenizer') + '.tokenize':
                c, t = self.expr(e.args[0])
                tt = self.env['tok']
                tokc = 'tok'
                if tt[0] == 'Option':
                    pyname = self.spec.get('tokenizer')
                    if pyname not in self.narrowed:
                        self.fail(e, 'the tokenizer may be None here')
                    tt = tt[1]
                    tokc = '(tok.getD %s)' % default_of(tt)
                if t == 'Cell' and self.spec.get('raises'):
                    # the tokenizer raises TypeError on anything that is not a str
                    return self.raising(e, '(if %s.isStr then pure (%s %s.strVal) else throw PyErr.typeErr)' % (c, tokc, c), tt[2])
                if t == 'Cell':
                    # the tokenizer raises TypeError on a non-string; join-attribute cells are strings
                    return '(%s %s.strVal)' % (tokc, c), tt[2]
                if t == 'String':
                    return '(%s %s)' % (tokc, c), tt[2]
                self.fail(e, 'tokenize of %s' % self.show(t))
            # set(xs).intersection(set(ys))
            if m == 'intersection' and len(e.args) == 1 and self.is_set_call(f.value) and self.is_set_call(e.args[0]):
                self.need_builtin(e, 'set')
                (a, ta), (b, tb) = self.expr(f.value.args[0]), self.expr(e.args[0].args[0])
                if not (isinstance(ta, tuple) and ta[0] == 'List' and ta == tb and ta[1] in ('Nat', 'String')):
                    self.fail(e, 'set intersection of %s and %s' % (self.show(ta), self.show(tb)))
                return '(List.filter (fun t => decide (t ∈ %s)) (dedup %s))' % (b, a), ('Set', ta[1])
            # record methods (probe)
            if isinstance(f.value, ast.Name) and f.value.id in self.env and (self.env[f.value.id], m) in METHODS:
                rt = self.env[f.value.id]
                _, _, _, templ, argts, rest = METHODS[(rt, m)]
                if len(e.args) != len(argts):
                    self.fail(e, 'wrong number of arguments')
                args = []
                for a, want in zip(e.args, argts):
                    c, t = self.expr(a)
                    args.append(self.coerce(a, c, t, want))
                return '(%s)' % templ.format(*args, recv=f.value.id), rest
            recv, rt = self.expr(f.value)
            if m == 'get' and isinstance(rt, tuple) and rt[0] == 'Dict' and len(e.args) in (1, 2):
                k, tk = self.expr(e.args[0])
                k = self.coerce(e.args[0], k, tk, rt[1])
                if len(e.args) == 1:
                    return '(Dict.get? %s %s)' % (recv, k), O(rt[2])
                d, td = self.expr(e.args[1])
                d = self.coerce(e.args[1], d, td, rt[2])
                if is_mutable_type(rt[2]):
                    self.fail(e, '`.get(k, default)` with a mutable default/value is outside the table')
                return '(Dict.getD %s %s %s)' % (recv, k, d), rt[2]
            if m == 'index' and isinstance(rt, tuple) and rt[0] == 'List' and len(e.args) == 1:
                a, ta = self.expr(e.args[0])
                a = self.coerce(e.args[0], a, ta, rt[1])
                self.notes.append('%s:%d list.index ↦ List.idxOf (Python raises ValueError when absent; '
                                  'Lean returns the length)' % (self.fname, e.lineno))
                return '(List.idxOf %s %s)' % (a, recv), 'Nat'
        self.fail(e, 'call outside the table')

    def object_method(self, e, recv, m):
        """`filter_obj.find_candidates(…)` on a filter parameter or a filter constructed in the worker"""
        cls = self.spec.get('objects', {}).get(recv) or self.spec.get('filter_params', {}).get(recv)
        if cls is None or recv not in self.env:
            return None
        key = (self.env[recv], cls, m)
        if key not in OBJ_METHODS:
            return None
        templ, argts, rest = OBJ_METHODS[key]
        if e.keywords or len(e.args) != len(argts):
            self.fail(e, 'wrong number of arguments for `%s.%s`' % (recv, m))
        args = [self.expr_expect(a, w) for a, w in zip(e.args, argts)]
        return '(%s %s)' % (templ.format(recv=recv), ' '.join(args)), rest

    @staticmethod
    def is_set_call(x):
        return isinstance(x, ast.Call) and isinstance(x.func, ast.Name) and x.func.id == 'set' \
            and len(x.args) == 1 and not x.keywords

    def table_call(self, e, key):
        """a call of another translated function (or of a modelled library function), from the per-function
        `calls` table: argument types are checked; `fuel` gives the extra first argument of a function that
        is recursive in Python (template over the translated arguments, or the enclosing fuel variable)"""
        ent = self.spec['calls'][key]
        if e.keywords:
            # keyword arguments are put in the callee's parameter order (`kwargs` = its parameter names)
            names = ent.get('kwargs')
            if not names:
                self.fail(e, 'keyword arguments for `%s` are outside the table' % key)
            given = dict(zip(names, e.args))
            for kw in e.keywords:
                if kw.arg not in names or kw.arg in given:
                    self.fail(e, 'keyword `%s` of `%s`' % (kw.arg, key))
                given[kw.arg] = kw.value
            if sorted(given) != sorted(names):
                self.fail(e, 'wrong arguments for `%s`' % key)
            e = ast.copy_location(ast.Call(func=e.func, args=[given[n] for n in names], keywords=[]), e)
        if len(e.args) != len(ent['args']):
            self.fail(e, 'wrong number of arguments for `%s`' % key)
        if 'import' in ent and self.imports.get(key) != ent['import']:
            self.fail(e, '`%s` must be imported by `from %s import %s`' % (key, ent['import'][0], ent['import'][1]))
        if 'import' not in ent and isinstance(e.func, ast.Name):
            # a module-level function of the same file
            defs = [d for d in self.module.body if isinstance(d, ast.FunctionDef) and d.name == key]
            if len(defs) != 1 or key in self.imports:
                self.fail(e, '`%s` is not a function of this module' % key)
        args = []
        tv = None
        for a, want in zip(e.args, ent['args']):
            if want == 'TOK':
                self.cfg_source('TOK', a)
                args.append('tok')
                continue
            if want == 'SKIP':
                if not (isinstance(a, (ast.Name, ast.Constant))
                        or (isinstance(a, ast.Attribute) and isinstance(a.value, ast.Name))):
                    self.fail(a, 'an ignored argument must be a name or a constant')
                continue
            self.no_alias(a)
            if isinstance(a, ast.List) and a.elts and isinstance(want, tuple) and want[0] == 'List':
                c, t = self.expr(a)
            else:
                c, t = self.expr(a)
            if 'τ' in repr(want) and 'τ' not in repr(self.spec.get('params')):
                # instantiate the callee's token type at the first argument that mentions it
                if tv is None:
                    tv = self.match_tyvar(want, t)
                    if tv is None:
                        self.fail(a, 'cannot instantiate the token type of `%s` from %s' % (key, self.show(t)))
                want = self.subst_tyvar(want, tv)
            args.append(self.coerce(a, c, t, want))
        ret = ent['ret']
        if tv is not None:
            ret = self.subst_tyvar(ret, tv)
        pre = []
        if 'fuel' in ent:
            if ent['fuel'] == 'fuel' and not self.spec.get('fuel'):
                self.fail(e, 'recursive call outside a fuel-indexed function')
            pre.append(ent['fuel'].format(*args))
        pre += [x for x in ent.get('pre', [])]
        return '(%s %s)' % (ent['lean'], ' '.join(pre + args)), ret

    @staticmethod
    def match_tyvar(pattern, t):
        if pattern == 'τ':
            return t
        if isinstance(pattern, tuple) and isinstance(t, tuple) and pattern[0] == t[0] and len(pattern) == len(t):
            for p_, t_ in zip(pattern[1:], t[1:]):
                r = Tr.match_tyvar(p_, t_)
                if r is not None:
                    return r
        return None

    @staticmethod
    def subst_tyvar(t, tv):
        if t == 'τ':
            return tv
        if isinstance(t, tuple):
            return tuple(Tr.subst_tyvar(x, tv) if not isinstance(x, str) or x == 'τ' else x for x in t)
        return t

    def sorted_call(self, e):
        self.need_builtin(e, 'sorted')
        if len(e.args) != 1 or len(e.keywords) != 1 or e.keywords[0].arg != 'key':
            self.fail(e, 'only `sorted(xs, key=itemgetter(i))` is in the table')
        kv = e.keywords[0].value
        if not (isinstance(kv, ast.Call) and isinstance(kv.func, ast.Name) and kv.func.id == 'itemgetter'
                and len(kv.args) == 1 and not kv.keywords and isinstance(kv.args[0], ast.Constant)
                and kv.args[0].value in (0, 1) and not isinstance(kv.args[0].value, bool)):
            self.fail(e, 'sort key must be itemgetter(0) or itemgetter(1)')
        self.need_import(kv, 'itemgetter')
        i = kv.args[0].value
        arg = e.args[0]
        # sorted(list(d.items()), ...)
        if isinstance(arg, ast.Call) and isinstance(arg.func, ast.Name) and arg.func.id == 'list' \
                and len(arg.args) == 1 and not arg.keywords:
            self.need_builtin(arg, 'list')
            inner = arg.args[0]
            if not (isinstance(inner, ast.Call) and isinstance(inner.func, ast.Attribute)
                    and inner.func.attr == 'items' and not inner.args and not inner.keywords):
                self.fail(arg, 'only `list(d.items())` is in the table')
            c, t = self.expr(inner.func.value)
            if not (isinstance(t, tuple) and t[0] == 'Dict'):
                self.fail(inner, '`.items()` of a non-dict')
            lt = L(P(t[1], t[2]))
        else:
            c, t = self.expr(arg)
            if not (isinstance(t, tuple) and t[0] == 'List' and isinstance(t[1], tuple) and t[1][0] == 'Prod'):
                self.fail(arg, 'sorted(…, key=itemgetter) needs a list of pairs')
            lt = t
        kt = lt[1][1 + i]
        if kt not in ('Nat', 'Int', 'String'):
            self.fail(e, 'sort key of type %s is outside the table' % self.show(kt))
        return '(List.mergeSort %s (fun a b => decide (a.%d ≤ b.%d)))' % (c, i + 1, i + 1), lt

    def cfg_call(self, e):
        n = e.func.id
        self.need_import(e, n)
        nnat, trailing, field, rest = CFG_CALLS[n]
        cfg = self.spec.get('cfg')
        if cfg is None:
            self.fail(e, '`%s`: the type table gives this function no filter configuration' % n)
        if len(e.args) != nnat + len(trailing) or e.keywords:
            self.fail(e, 'wrong number of arguments for `%s`' % n)
        obj = self.spec.get('cfg_obj', 'self')
        for a, want in zip(e.args[nnat:], trailing):
            want = obj + want[len('self'):]
            if src_of(a) != want:
                self.fail(a, 'argument of `%s` must be `%s`' % (n, want))
        args = []
        for a in e.args[:nnat]:
            c, t = self.expr(a)
            if t != 'Nat':
                self.fail(a, 'token-count argument of `%s` must have type Nat, have %s' % (n, self.show(t)))
            args.append(c)
        return '(%s.%s %s)' % (cfg, field, ' '.join(args)), rest

    # ---- the cache idiom -------------------------------------------------------------------------
    def detect_cache(self, body):
        """`C = {}` ; `for S in xrange(LO, HI + 1): C[S] = VALUE(S)` ; reads `C[K]` only under the
        guard `LO <= K <= HI`.  Returns the body without the two filling statements."""
        caches = [n for n, t in self.locals.items() if t == 'Cache']
        if not caches:
            return body
        if len(caches) != 1:
            self.fail(self.func, 'at most one cache per function')
        C = caches[0]
        idx = [i for i, s in enumerate(body) if isinstance(s, ast.Assign) and len(s.targets) == 1
               and isinstance(s.targets[0], ast.Name) and s.targets[0].id == C]
        if len(idx) != 1:
            self.fail(self.func, 'cache `%s` must be initialised exactly once at the top level of the function' % C)
        i = idx[0]
        init = body[i]
        if not (isinstance(init.value, ast.Dict) and not init.value.keys):
            self.fail(init, 'cache must be initialised with `{}`')
        if i + 1 >= len(body) or not isinstance(body[i + 1], ast.For):
            self.fail(init, 'cache initialisation must be immediately followed by its filling loop')
        loop = body[i + 1]
        it = loop.iter
        if loop.orelse or not (isinstance(loop.target, ast.Name) and isinstance(it, ast.Call)
                               and isinstance(it.func, ast.Name) and it.func.id == 'xrange'
                               and len(it.args) == 2 and not it.keywords):
            self.fail(loop, 'cache filling loop must be `for S in xrange(LO, HI + 1)`')
        self.need_import(it, 'xrange')
        S = loop.target.id
        lo, hi1 = it.args
        if not (isinstance(lo, ast.Name) and isinstance(hi1, ast.BinOp) and isinstance(hi1.op, ast.Add)
                and isinstance(hi1.left, ast.Name) and isinstance(hi1.right, ast.Constant)
                and hi1.right.value == 1 and not isinstance(hi1.right.value, bool)):
            self.fail(it, 'cache range must be `xrange(LO, HI + 1)` with variables LO, HI')
        LO, HI = lo.id, hi1.left.id
        if not (len(loop.body) == 1 and isinstance(loop.body[0], ast.Assign)
                and len(loop.body[0].targets) == 1
                and isinstance(loop.body[0].targets[0], ast.Subscript)
                and isinstance(loop.body[0].targets[0].value, ast.Name)
                and loop.body[0].targets[0].value.id == C
                and isinstance(loop.body[0].targets[0].slice, ast.Name)
                and loop.body[0].targets[0].slice.id == S):
            self.fail(loop, 'cache filling loop body must be exactly `%s[%s] = VALUE`' % (C, S))
        value = loop.body[0].value
        if not (isinstance(value, ast.Call) and isinstance(value.func, ast.Name) and value.func.id in CFG_CALLS):
            self.fail(value, 'cached value must be a call of a filter_utils function')
        all_assigned = assigned_names(self.func.body)
        # the loop variable is used nowhere else
        rest = body[:i] + body[i + 2:]
        for s in rest:
            for n in names_in(s):
                if n.id == S:
                    self.fail(n, 'cache loop variable `%s` used outside the filling loop' % S)
        # everything the value depends on (besides S) is bound exactly once, before the loop
        before = assigned_names(body[:i])
        for n in names_in(value):
            if n.id in (S, 'self') or n.id in CFG_CALLS:
                continue
            if n.id == C:
                self.fail(n, 'cached value mentions the cache')
            if n.id in self.params:
                if n.id in all_assigned:
                    self.fail(n, 'parameter `%s` is reassigned' % n.id)
                continue
            if all_assigned.count(n.id) != 1 or before.count(n.id) != 1:
                self.fail(n, 'cached value depends on `%s`, which is not bound exactly once before the loop' % n.id)
        for b in (LO, HI):
            if b in self.params:
                if b in all_assigned:
                    self.fail(loop, 'cache bound `%s` is reassigned' % b)
            elif all_assigned.count(b) != 1 or before.count(b) != 1:
                self.fail(loop, 'cache bound `%s` is not bound exactly once before the loop' % b)
        # every other occurrence of C is a guarded read
        self.cache = dict(name=C, var=S, lo=LO, hi=HI, value=value, guards=[], reads=0,
                          all_assigned=all_assigned)
        for s in rest:
            self.check_cache_uses(s, [])
        if self.cache['reads'] == 0:
            self.fail(init, 'cache `%s` is never read' % C)
        self.notes.append('%s:%d cache `%s` filled over xrange(%s, %s + 1) and read only under `%s <= K <= %s`: '
                          'reads translated as direct calls' % (self.fname, init.lineno, C, LO, HI, LO, HI))
        return rest

    def guard_key(self, test):
        """`LO <= K <= HI` -> K"""
        c = self.cache
        if isinstance(test, ast.Compare) and len(test.ops) == 2 and all(isinstance(o, ast.LtE) for o in test.ops) \
                and isinstance(test.left, ast.Name) and test.left.id == c['lo'] \
                and isinstance(test.comparators[0], ast.Name) \
                and isinstance(test.comparators[1], ast.Name) and test.comparators[1].id == c['hi']:
            return test.comparators[0].id
        return None

    def check_cache_uses(self, node, guards):
        """walk `node`; `guards` = list of (K, If node) for enclosing `if LO <= K <= HI:` bodies"""
        c = self.cache
        if isinstance(node, ast.If):
            self.check_cache_uses(node.test, guards)
            k = self.guard_key(node.test)
            g2 = guards + [(k, node)] if k is not None else guards
            for s in node.body:
                self.check_cache_uses(s, g2)
            for s in node.orelse:
                self.check_cache_uses(s, guards)
            return
        if isinstance(node, ast.Subscript) and isinstance(node.value, ast.Name) and node.value.id == c['name']:
            if not isinstance(node.ctx, ast.Load):
                self.fail(node, 'cache is written outside its filling loop')
            if not isinstance(node.slice, ast.Name):
                self.fail(node, 'cache key must be a variable')
            K = node.slice.id
            hit = [g for g in guards if g[0] == K]
            if not hit:
                self.fail(node, 'cache read `%s[%s]` is not under the guard `%s <= %s <= %s`' % (
                    c['name'], K, c['lo'], K, c['hi']))
            # K is bound exactly once in the function, and not inside the guarded body
            if K in self.params:
                if K in c['all_assigned']:
                    self.fail(node, 'cache key `%s` is reassigned' % K)
            else:
                if c['all_assigned'].count(K) != 1:
                    self.fail(node, 'cache key `%s` is not bound exactly once' % K)
                for _, ifnode in hit:
                    if K in assigned_names(ifnode.body):
                        self.fail(node, 'cache key `%s` is rebound inside the guarded block' % K)
            c['reads'] += 1
            return
        if isinstance(node, ast.Name) and node.id == c['name']:
            self.fail(node, 'cache variable used outside the recognised cache idiom')
        for ch in ast.iter_child_nodes(node):
            self.check_cache_uses(ch, guards)

    def cache_read(self, e):
        c = self.cache
        K = e.slice.id
        # VALUE[S := K]
        class Sub(ast.NodeTransformer):
            def visit_Name(self_, n):
                if n.id == c['var']:
                    return ast.copy_location(ast.Name(id=K, ctx=ast.Load()), e)
                return n
        import copy
        v = Sub().visit(copy.deepcopy(c['value']))
        ast.fix_missing_locations(v)
        for n in ast.walk(v):
            if not hasattr(n, 'lineno'):
                n.lineno, n.col_offset = e.lineno, e.col_offset
        return self.expr(v)

    # ---- statements ------------------------------------------------------------------------------
    def declare(self, name, t):
        self.env[name] = t
        self.declared.add(name)
        if self.loop_bodies:
            self.loop_local.setdefault(id(self.loop_bodies[-1]), set()).add(name)

    def emit(self, ind, line):
        for pre in self.pre:
            self.out.append('  ' * ind + pre)
        self.pre = []
        self.out.append('  ' * ind + line)

    def raising(self, node, code, t):
        """a sub-expression that may raise (only in functions the table marks `raises`): bound with `←` to a
        temporary BEFORE the statement it occurs in — refused where that would change the evaluation order
        (operands of and/or, conditional expressions, elif tests)"""
        if not self.spec.get('raises'):
            self.fail(node, 'this expression may raise, but the type table gives the function no exception result')
        if self.no_raise_ctx:
            self.fail(node, 'a raising expression under and/or/conditional/elif would be evaluated out of order')
        self.tmp += 1
        name = 't__%d' % self.tmp
        self.pre.append('let %s ← %s' % (name, code))
        return name, t

    def analyse(self, body):
        """which variables are mutated in place / assigned more than once; checks on parameters"""
        assigned = assigned_names(body)
        for n in assigned:
            if n in self.params:
                if n in self.spec.get('retype', {}) or n in self.spec.get('pandas_views', {}):
                    continue
                if is_mutable_type(self.params[n]) and not self.spec.get('rebind_list_params'):
                    self.fail(self.func, 'assignment to the list/dict parameter `%s` is outside the table' % n)
                self.rebound_params.add(n)
        for node in ast.walk(self.func):
            if isinstance(node, ast.Expr) and isinstance(node.value, ast.Call) \
                    and isinstance(node.value.func, ast.Attribute) and node.value.func.attr in ('append', 'sort', 'add', 'update', 'insert') \
                    and isinstance(node.value.func.value, ast.Name):
                self.mutated.add(node.value.func.value.id)
            if isinstance(node, ast.Expr) and isinstance(node.value, ast.Call) \
                    and isinstance(node.value.func, ast.Attribute) and node.value.func.attr == 'append' \
                    and isinstance(node.value.func.value, ast.Call) \
                    and isinstance(node.value.func.value.func, ast.Attribute) \
                    and isinstance(node.value.func.value.func.value, ast.Name):
                self.mutated.add(node.value.func.value.func.value.id)
            if isinstance(node, (ast.Assign, ast.AugAssign)):
                tg = node.targets if isinstance(node, ast.Assign) else [node.target]
                for t in tg:
                    if isinstance(t, ast.Subscript) and isinstance(t.value, ast.Name):
                        self.mutated.add(t.value.id)
        for n in self.mutated:
            if n in self.params:
                self.fail(self.func, 'in-place mutation of parameter `%s` is outside the table' % n)
        # assigned in a loop or several times => `let mut`
        def walk(stmts, in_loop):
            for s in stmts:
                if isinstance(s, (ast.Assign, ast.AugAssign)):
                    tg = s.targets if isinstance(s, ast.Assign) else [s.target]
                    for t in tg:
                        for t in (t.elts if isinstance(t, ast.Tuple) else [t]):
                            if isinstance(t, ast.Name):
                                if isinstance(s, ast.AugAssign) or assigned.count(t.id) > 1:
                                    self.multi_assigned.add(t.id)
                elif isinstance(s, ast.For):
                    walk(s.body, True)
                elif isinstance(s, ast.If):
                    walk(s.body, in_loop)
                    walk(s.orelse, in_loop)
        walk(body, False)

    def occurs(self, stmt, name):
        return any(n.id == name for n in names_in(stmt))

    def hoist_before(self, stmts, k, ind):
        """declare here every local whose first occurrence in this block is statement k, unless
        statement k is itself the plain assignment that declares it"""
        s = stmts[k]
        for name in sorted(self.locals):
            t = self.locals[name]
            if t == 'Cache' or name in self.declared or name in self.env:
                continue
            if not self.occurs(s, name):
                continue
            # loop targets are bound by their loop
            if self.is_only_loop_target(name):
                continue
            if isinstance(s, ast.Assign) and len(s.targets) == 1 and isinstance(s.targets[0], ast.Name) \
                    and s.targets[0].id == name:
                continue        # declared by the statement itself
            if isinstance(s, ast.Assign) and len(s.targets) == 1 and isinstance(s.targets[0], ast.Tuple) \
                    and any(isinstance(x, ast.Name) and x.id == name for x in s.targets[0].elts) \
                    and not any(n.id == name for n in names_in(s.value)):
                continue        # declared by the unpacking statement itself
            # does the variable occur after this statement in this block, or is it needed across
            # iterations/branches?  Either way it has to be declared here.
            later = any(self.occurs(x, name) for x in stmts[k + 1:])
            if not later and not self.assigned_in_branches_and_read(s, name):
                # purely local to statement k: it will be declared further inside
                continue
            definite = self.definitely_assigned(stmts[k:], name, False)[0]
            if self.loop_vars and not definite:
                # declared inside a loop body: a value could be carried from one iteration to the next
                self.fail(s, 'local `%s` is not definitely assigned before its reads within the loop body '
                             '(its value may be carried between iterations)' % name)
            if not definite:
                self.check_first_occurrence_is_store(name)
                self.notes.append('%s: local `%s` is first bound inside a nested block and is not definitely '
                                  'assigned before its reads; declared before that block with the default '
                                  'value %s (Python would raise UnboundLocalError on a read before '
                                  'assignment)' % (self.fname, name, default_of(t)))
            self.emit(ind, 'let mut %s : %s := %s  -- hoisted: first bound inside the next statement' % (
                name, lean_type(t), default_of(t)))
            self.declare(name, t)

    def definitely_assigned(self, stmts, name, assigned):
        """definite-assignment analysis of `name` over a statement list, starting with the given
        state.  Returns (every read happens after an assignment, assigned at the end).  A block that
        ends in continue/return counts as assigned at its end (control does not fall through)."""
        ok = True

        def reads(node):
            return any(n.id == name and isinstance(n.ctx, ast.Load) for n in names_in(node))

        for s in stmts:
            if isinstance(s, ast.Assign):
                if reads(s.value) and not assigned:
                    ok = False
                for t in s.targets:
                    if isinstance(t, ast.Name):
                        if t.id == name:
                            assigned = True
                    elif isinstance(t, ast.Tuple) and all(isinstance(x, ast.Name) for x in t.elts):
                        if any(x.id == name for x in t.elts):
                            assigned = True
                    elif any(n.id == name for n in names_in(t)) and not assigned:
                        ok = False
            elif isinstance(s, ast.AugAssign):
                if any(n.id == name for n in names_in(s)) and not assigned:
                    ok = False
            elif isinstance(s, ast.If):
                if reads(s.test) and not assigned:
                    ok = False
                o1, a1 = self.definitely_assigned(s.body, name, assigned)
                o2, a2 = self.definitely_assigned(s.orelse, name, assigned)
                ok = ok and o1 and o2
                assigned = a1 and a2
            elif isinstance(s, ast.For):
                if reads(s.iter) and not assigned:
                    ok = False
                o1, _ = self.definitely_assigned(s.body, name, assigned)
                ok = ok and o1
            elif isinstance(s, (ast.Return, ast.Continue)):
                if isinstance(s, ast.Return) and s.value is not None and reads(s.value) and not assigned:
                    ok = False
                assigned = True
            else:
                if any(n.id == name for n in names_in(s)) and not assigned:
                    ok = False
        return ok, assigned

    def check_first_occurrence_is_store(self, name):
        """necessary condition for a hoisted variable not to be read unbound: in source order its first
        occurrence is the target of a plain assignment"""
        aug = set()
        for node in ast.walk(self.func):
            if isinstance(node, ast.AugAssign):
                aug |= {id(n) for n in names_in(node.target)}
        occ = sorted((n for n in names_in(self.func) if n.id == name), key=lambda n: (n.lineno, n.col_offset))
        first = occ[0]
        if not isinstance(first.ctx, ast.Store) or id(first) in aug:
            self.fail(first, 'local `%s` is read before any assignment' % name)
        # the value assigned must not mention the variable itself (`x = x + 1` evaluates x first)
        for node in ast.walk(self.func):
            if isinstance(node, ast.Assign) and any(t is first for t in node.targets):
                if any(n.id == name for n in names_in(node.value)):
                    self.fail(first, 'local `%s` is read before any assignment' % name)

    def is_only_loop_target(self, name):
        tg = 0
        other = 0
        for node in ast.walk(self.func):
            if isinstance(node, ast.For):
                if any(n.id == name for n in names_in(node.target)):
                    tg += 1
            if isinstance(node, (ast.Assign, ast.AugAssign)):
                ts = node.targets if isinstance(node, ast.Assign) else [node.target]
                for t in ts:
                    if isinstance(t, ast.Name) and t.id == name:
                        other += 1
        rv = self.spec.get('row_view')
        if rv and name == rv['view']:
            return True
        if tg and other:
            self.fail(self.func, '`%s` is both a loop variable and assigned' % name)
        return tg > 0

    def assigned_in_branches_and_read(self, s, name):
        """inside the compound statement `s`, is `name` needed at the level of `s` itself (assigned in
        one sub-block and used in another)?  Conservative: true iff it occurs in more than one direct
        sub-block of s, or s is a loop whose body assigns it not as the first plain statement-level
        declaration."""
        if isinstance(s, ast.If):
            blocks = [s.body, s.orelse]
            cnt = sum(1 for b in blocks if any(self.occurs(x, name) for x in b))
            return cnt > 1 or self.occurs(s.test, name)
        if isinstance(s, ast.For):
            return self.occurs(s.iter, name)
        return False

    def block(self, stmts, ind):
        saved_env = dict(self.env)
        saved_narrow = set(self.narrowed)
        saved_declared = set(self.declared)
        for k, s in enumerate(stmts):
            self.hoist_before(stmts, k, ind)
            if self.is_retype_if(s):
                self.retype_if(s, stmts[k + 1:], ind)
                break
            self.stmt(s, ind, stmts, k)
        # leave scope: names declared in this block disappear
        self.env = {n: t for n, t in self.env.items() if n in saved_env}
        self.declared = {n for n in self.declared if n in saved_declared}
        # narrowing facts survive for names that are still in scope
        scope = set(self.env) | set(self.spec.get('param_map', {}))
        self.narrowed = {n for n in self.narrowed if n in scope}

    def is_retype_if(self, s):
        rt = self.spec.get('retype')
        if not rt or not isinstance(s, ast.If):
            return False
        hit = [x for x in assigned_names(s.body + s.orelse) if x in rt]
        if not hit:
            return False
        ok = not s.orelse and not self.loop_vars and all(
            isinstance(x, ast.Assign) and len(x.targets) == 1 and isinstance(x.targets[0], ast.Name)
            and x.targets[0].id in rt and isinstance(x.value, ast.Call) and len(x.value.args) == 1
            and src_of(x.value.args[0]) == x.targets[0].id and not x.value.keywords for x in s.body)
        if not ok or sorted(hit) != sorted(rt) or len(hit) != len(set(hit)):
            self.fail(s, 'a parameter whose type changes may only be rebound as `if c: x = f(x); …` '
                         '(all such parameters, once, at the top level)')
        return True

    def retype_if(self, s, rest, ind):
        """`if c: x = f(x)` where `f` changes the TYPE of the parameter x (a Python variable has no fixed
        type): the rest of the block is translated twice, once under each typing"""
        rt = self.spec['retype']
        for x in rest:
            if any(n in rt for n in assigned_names([x])):
                self.fail(x, 'retyped parameter assigned again')
        c, _ = self.truthy(s.test)
        self.emit(ind, 'if %s then' % c)
        saved_env, saved_params = dict(self.env), dict(self.params)
        for x in s.body:
            name = x.targets[0].id
            code, t = self.expr(x.value)
            if t != rt[name]:
                self.fail(x, 'retyped parameter `%s`: have %s, table says %s' % (name, self.show(t), self.show(rt[name])))
            self.emit(ind + 1, 'let %s : %s := %s' % (name, lean_type(t), code))
        for name in rt:
            self.env[name] = rt[name]
        self.block(rest, ind + 1)
        self.env = saved_env
        self.emit(ind, 'else')
        self.block(rest, ind + 1)

    def stmt(self, s, ind, stmts, k):
        if isinstance(s, ast.Expr) and isinstance(s.value, ast.Constant) and isinstance(s.value.value, str):
            return      # docstring
        if isinstance(s, ast.Assign):
            return self.assign(s, ind)
        if isinstance(s, ast.AugAssign):
            if not (isinstance(s.op, ast.Add) and isinstance(s.target, ast.Name)):
                self.fail(s, 'augmented assignment outside the table')
            name = s.target.id
            if name not in self.env or (name in self.params and name not in self.rebound_params):
                self.fail(s, 'variable not in scope / not assignable')
            t = self.env[name]
            c, tc = self.expr(s.value)
            if t not in ('Nat', 'Int'):
                self.fail(s, '`+=` on %s is outside the table' % self.show(t))
            self.emit(ind, '%s := %s + %s' % (name, name, self.coerce(s, c, tc, t)))
            return
        if isinstance(s, ast.Expr) and src_of(s) in self.spec.get('ignore_stmts', []):
            # validation of a pandas object: outside the generated function (literal form checked)
            if self.loop_vars:
                self.fail(s, 'ignored statement inside a loop')
            self.notes.append('%s:%d `%s` is not translated (validation of the pandas object)' % (
                self.fname, s.lineno, src_of(s)))
            return
        if isinstance(s, ast.Expr) and isinstance(s.value, ast.Call) and isinstance(s.value.func, ast.Name) \
                and s.value.func.id in self.spec.get('raising_stmts', {}):
            ent = self.spec['raising_stmts'][s.value.func.id]
            if self.imports.get(s.value.func.id) != ent['import']:
                self.fail(s, '`%s` must be imported from %s' % (s.value.func.id, ent['import'][0]))
            call = s.value
            if call.keywords or len(call.args) != len(ent['args']):
                self.fail(s, 'wrong arguments for `%s`' % s.value.func.id)
            codes = []
            for a, w in zip(call.args, ent['args']):
                if isinstance(w, str) and w.startswith('='):
                    if src_of(a) != w[1:]:
                        self.fail(a, 'argument must be `%s`' % w[1:])
                else:
                    codes.append(self.expr_expect(a, w))
            if not self.spec.get('raises'):
                self.fail(s, 'raising statement in a function without an exception result')
            self.emit(ind, ent['lean'].format(*codes))
            return
        if isinstance(s, ast.Expr) and isinstance(s.value, ast.Call) and isinstance(s.value.func, ast.Attribute) \
                and s.value.func.attr == 'build' and isinstance(s.value.func.value, ast.Name) \
                and s.value.func.value.id in self.spec.get('objects', {}):
            return self.object_build(s.value, s.value.func.value.id, ind)
        if isinstance(s, ast.Expr) and isinstance(s.value, ast.Call):
            return self.method_stmt(s, ind, stmts, k)
        if isinstance(s, ast.For):
            return self.for_stmt(s, ind)
        if isinstance(s, ast.If):
            return self.if_stmt(s, ind, stmts, k)
        if isinstance(s, ast.Continue):
            if not self.loop_vars:
                self.fail(s, '`continue` outside a loop')
            self.emit(ind, 'continue')
            return
        if isinstance(s, ast.Return):
            if s.value is None:
                self.fail(s, 'bare `return` is outside the table')
            if self.spec.get('ret_record'):
                return self.return_record(s, ind)
            if self.spec.get('tail_return'):
                # the function ends with pandas statements building the result from one list: that list is returned
                name, tail = self.spec['tail_return']
                got = [src_of(x) for x in stmts[k - len(tail) + 1:k + 1]]
                if self.loop_vars or got != tail:
                    self.fail(s, 'the function must end with: %s' % ' ; '.join(tail))
                self.emit(ind, 'return %s' % self.var(ast.Name(id=name, ctx=ast.Load(), lineno=s.lineno, col_offset=0))[0])
                return
            if self.spec.get('dataframe_return'):
                rows, header = self.spec['dataframe_return']
                prev = stmts[k - 1] if k > 0 else None
                if self.loop_vars or src_of(s) != 'return output_table' or prev is None or \
                        src_of(prev) != 'output_table = pd.DataFrame(%s, columns=%s)' % (rows, header):
                    self.fail(s, 'the worker must end with `output_table = pd.DataFrame(%s, columns=%s)` ; '
                                 '`return output_table`' % (rows, header))
                self.need_import(s, 'pd')
                self.emit(ind, 'return (%s, %s)' % (self.var(ast.Name(id=header, ctx=ast.Load(), lineno=s.lineno, col_offset=0))[0],
                                                     self.var(ast.Name(id=rows, ctx=ast.Load(), lineno=s.lineno, col_offset=0))[0]))
                return
            self.emit(ind, 'return %s' % self.expr_expect(s.value, self.ret))
            return
        self.fail(s, 'statement outside the table')

    def assign(self, s, ind):
        if len(s.targets) != 1:
            self.fail(s, 'multiple assignment targets')
        tg = s.targets[0]
        if isinstance(tg, ast.Tuple):
            return self.unpack_assign(s, ind)
        if isinstance(tg, ast.Name) and self.worker_assign(s, tg.id, ind):
            return
        if isinstance(tg, ast.Name):
            name = tg.id
            if name in self.rebound_params:
                t = self.params[name]
            elif name in self.params or name not in self.locals:
                self.fail(s, 'assignment to `%s`: not a local in the type table' % name)
            else:
                t = self.locals[name]
            if t == 'Cache':
                self.fail(s, 'cache variable assigned outside the recognised cache idiom')
            self.no_alias(s.value)
            if isinstance(s.value, ast.Name) and is_mutable_type(self.env.get(s.value.id)) \
                    and name in self.mutated:
                self.fail(s, 'aliasing a list/dict that is later mutated')
            c, tc = self.expr(s.value)
            # assigning a non-None value to an Option-typed local: it is known not to be None until its
            # next assignment (narrowing is dropped at the end of any block/loop that assigns it)
            narrow = (isinstance(t, tuple) and t[0] == 'Option' and tc == t[1]) or (t == 'SimArg' and tc == 'Cell')
            c = self.coerce(s, c, tc, t)
            self.narrowed.discard(name)
            if narrow:
                self.narrowed.add(name)
            if name in self.env and (name not in self.params or name in self.declared):
                self.emit(ind, '%s := %s' % (name, c))
            else:
                mut = name in self.multi_assigned or name in self.mutated
                self.emit(ind, 'let %s%s : %s := %s' % ('mut ' if mut else '', name, lean_type(t), c))
                self.declare(name, t)
            return
        if isinstance(tg, ast.Subscript) and isinstance(tg.value, ast.Name):
            name = tg.value.id
            if self.cache and name == self.cache['name']:
                self.fail(s, 'cache is written outside its filling loop')
            if name not in self.env or name in self.params or name not in self.declared:
                self.fail(s, 'variable not in scope / not assignable')
            t = self.env[name]
            if not (isinstance(t, tuple) and t[0] == 'Dict'):
                self.fail(s, '`x[k] = v` is only in the table for dicts')
            if isinstance(tg.slice, ast.Slice):
                self.fail(s, 'slice assignment')
            k, tk = self.expr(tg.slice)
            self.no_alias(s.value)
            v, tv = self.expr(s.value)
            self.emit(ind, '%s := %s %s %s %s' % (name, 'Dict.setPy' if t[1] == 'Cell' else 'Dict.set', name, self.coerce(tg, k, tk, t[1]),
                                                     self.coerce(s, v, tv, t[2])))
            return
        self.fail(s, 'assignment target outside the table')

    # ---- worker idioms: constructed objects, aliases of library functions, constants ----------------
    def worker_assign(self, s, name, ind):
        sp = self.spec
        if sp.get('tail_return') and any(src_of(s) == x for x in sp['tail_return'][1][:-1]):
            if self.loop_vars:
                self.fail(s, 'result construction inside a loop')
            return True
        if sp.get('dataframe_return') and name == 'output_table':
            if src_of(s) != 'output_table = pd.DataFrame(%s, columns=%s)' % sp['dataframe_return'] or self.loop_vars:
                self.fail(s, 'DataFrame construction outside the table')
            return True
        if name in sp.get('pandas_views', {}):
            # a pandas selection that is a PARAMETER of the generated function: only its source is checked
            if src_of(s.value) != sp['pandas_views'][name] or assigned_names(self.func.body).count(name) != 1 \
                    or self.loop_vars:
                self.fail(s, '`%s` must be assigned exactly once: `%s`' % (name, sp['pandas_views'][name]))
            self.need_import(s, 'pd')
            self.views_bound.add(name)
            note = '%s:%d `%s = %s` is a parameter of the generated function' % (
                self.fname, s.lineno, name, sp['pandas_views'][name])
            if note not in self.notes:
                self.notes.append(note)
            return True
        if name in sp.get('const_locals', {}):
            # e.g. `sim_measure_type = 'EDIT_DISTANCE'`: fixed by the table, the statement is only checked
            if src_of(s.value) != sp['const_locals'][name] or assigned_names(self.func.body).count(name) != 1 \
                    or self.loop_vars:
                self.fail(s, '`%s` must be assigned exactly once, the constant %s' % (name, sp['const_locals'][name]))
            return True
        if name in sp.get('fn_aliases', {}):
            ent = sp['fn_aliases'][name]
            if src_of(s.value) != ent['src'] or assigned_names(self.func.body).count(name) != 1 or self.loop_vars:
                self.fail(s, '`%s` must be assigned exactly once: `%s`' % (name, ent['src']))
            for nm, imp in ent.get('imports', {}).items():
                if self.imports.get(nm) != imp:
                    self.fail(s, '`%s` must be imported from %s' % (nm, imp[0]))
            self.aliases_bound.add(name)
            return True
        if name in sp.get('objects', {}):
            self.object_ctor(s, name)
            v = CLASSES[sp['objects'][name]].get('value')
            if v:
                t, templ = v
                self.emit(ind, 'let %s : %s := %s' % (name, t, templ.format(**self.objects[name]['args'])))
                self.declare(name, t)
            return True
        if name in sp.get('build_results', {}):
            obj = sp['build_results'][name]
            v = s.value
            if not (isinstance(v, ast.Call) and isinstance(v.func, ast.Attribute) and v.func.attr == 'build'
                    and isinstance(v.func.value, ast.Name) and v.func.value.id == obj):
                self.fail(s, '`%s` must be assigned `%s.build(…)`' % (name, obj))
            self.object_build(v, obj, ind, result_var=name)
            return True
        return False

    def cfg_source(self, kind, a):
        want = self.spec.get('cfg_sources', {}).get(kind)
        if want is None or src_of(a) != want:
            self.fail(a, 'this argument must be `%s` (the %s of the worker)' % (want, kind))

    def object_ctor(self, s, name):
        cls = self.spec['objects'][name]
        C = CLASSES[cls]
        v = s.value
        if not (isinstance(v, ast.Call) and isinstance(v.func, ast.Name) and v.func.id == cls):
            self.fail(s, '`%s` must be assigned `%s(…)`' % (name, cls))
        if self.imports.get(cls) != (C['module'], cls):
            self.fail(s, '`%s` must be imported from %s' % (cls, C['module']))
        if name in self.objects or assigned_names(self.func.body).count(name) != 1 or self.loop_vars:
            self.fail(s, 'object `%s` must be constructed exactly once, outside loops' % name)
        ctor = C['ctor']
        given = {}
        if len(v.args) > len(ctor):
            self.fail(v, 'too many constructor arguments')
        for a, c in zip(v.args, ctor):
            given[c[0]] = a
        for kw in v.keywords:
            if kw.arg not in [c[0] for c in ctor] or kw.arg in given:
                self.fail(v, 'constructor keyword `%s`' % kw.arg)
            given[kw.arg] = kw.value
        args = {'cfg': self.spec.get('cfg', '')}
        for c in ctor:
            pname, kind = c[0], c[1]
            if pname not in given:
                if len(c) < 3:
                    self.fail(v, 'constructor argument `%s` missing' % pname)
                args[pname] = c[2]
                continue
            a = given[pname]
            if kind in ('TOK', 'MEASURE', 'THRESHOLD'):
                self.cfg_source(kind, a)
                continue
            self.no_alias(a)
            args[pname] = self.expr_expect(a, kind)
        self.check_ctor_signature(v, cls)
        self.objects[name] = dict(cls=cls, args=args, built=False, node=s)

    def check_ctor_signature(self, node, cls):
        """the class's __init__ takes exactly the parameters of the table and stores each table/index/
        ordering argument unchanged (`self.x = x`, once, unconditionally)"""
        C = CLASSES[cls]
        key = ('ctor', cls)
        if key in self.checked:
            return
        self.checked.add(key)
        rel = C['file']
        src = open(os.path.join(self.spec['_repo'], rel), encoding='utf-8').read()
        mod = ast.parse(src, filename=rel)
        init = find_function(mod, cls, '__init__', rel)
        names = [a.arg for a in init.args.args]
        if names != ['self'] + [c[0] for c in C['ctor']]:
            self.fail(node, '%s.__init__ has parameters %s, the table expects %s' % (cls, names[1:], [c[0] for c in C['ctor']]))
        defaults = dict(zip(names[len(names) - len(init.args.defaults):], init.args.defaults))
        for c in C['ctor']:
            if len(c) == 3:
                d = defaults.get(c[0])
                lit = {'true': 'True', 'false': 'False'}.get(c[2], c[2]).replace('"', "'")
                if d is None or src_of(d) != lit:
                    self.fail(node, '%s.__init__: default of `%s` is expected to be %s' % (cls, c[0], lit))
            elif c[0] in defaults:
                self.fail(node, '%s.__init__: unexpected default for `%s`' % (cls, c[0]))
        if 'record' in C:
            for c in C['ctor']:
                if c[1] in ('MEASURE', 'THRESHOLD'):
                    continue
                hits = [st for st in ast.walk(init) if isinstance(st, ast.Assign)
                        and any(src_of(t) == 'self.%s' % c[0] for t in st.targets)]
                if len(hits) != 1 or hits[0] not in init.body or src_of(hits[0].value) != c[0]:
                    self.fail(node, '%s.__init__ must store `self.%s = %s` once, unconditionally' % (cls, c[0], c[0]))
        self.extra_sources.append(rel)

    def object_build(self, call, obj, ind, result_var=None):
        o = self.objects.get(obj)
        if o is None or o['built'] or self.loop_vars:
            self.fail(call, '`%s.build(…)` must be called exactly once on a constructed object, outside loops' % obj)
        C = CLASSES[o['cls']]
        B = C['build']
        given = {}
        if len(call.args) > len(B['params']):
            self.fail(call, 'too many arguments for build')
        for a, pr in zip(call.args, B['params']):
            given[pr[0]] = a
        for kw in call.keywords:
            if kw.arg not in [pr[0] for pr in B['params']] or kw.arg in given:
                self.fail(call, 'build keyword `%s`' % kw.arg)
            given[kw.arg] = kw.value
        args = []
        for pr in B['params']:
            args.append(self.expr_expect(given[pr[0]], pr[1]) if pr[0] in given else pr[2])
        pre = [x.format(**o['args']) for x in B['pre']]
        self.emit(ind, 'let %s : %s := %s %s' % (obj, C['record'], B['lean'], ' '.join(pre + args)))
        self.declare(obj, C['record'])
        o['built'] = True
        o['result_var'] = result_var

    def unpack_assign(self, s, ind):
        """`(a, b, …) = e` with `e` of an n-ary tuple type"""
        tg = s.targets[0]
        if not all(isinstance(x, ast.Name) for x in tg.elts):
            self.fail(s, 'nested unpacking')
        c, t = self.expr(s.value)
        comps, w = [], t
        for i in range(len(tg.elts) - 1):
            if not (isinstance(w, tuple) and w[0] == 'Prod'):
                self.fail(s, 'cannot unpack %s into %d names' % (self.show(t), len(tg.elts)))
            comps.append(w[1])
            w = w[2]
        comps.append(w)
        self.tmp += 1
        tmp = 't__%d' % self.tmp
        self.emit(ind, 'let %s := %s' % (tmp, c))
        n = len(tg.elts)
        for i, (x, ct) in enumerate(zip(tg.elts, comps)):
            name = x.id
            if name in self.params or name not in self.locals:
                self.fail(x, 'assignment to `%s`: not a local in the type table' % name)
            proj = tmp + '.2' * i + ('.1' if i < n - 1 else '')
            pc = self.coerce(x, proj, ct, self.locals[name])
            self.narrowed.discard(name)
            if name in self.env:
                self.emit(ind, '%s := %s' % (name, pc))
            else:
                mut = name in self.multi_assigned or name in self.mutated
                self.emit(ind, 'let %s%s : %s := %s' % ('mut ' if mut else '', name, lean_type(self.locals[name]), pc))
                self.declare(name, self.locals[name])

    def return_record(self, s, ind):
        """`return {'k1': v1, …}` of a method whose result record also collects the object state"""
        if self.loop_vars:
            self.fail(s, 'record return inside a loop')
        v = s.value
        fields = dict(RECORD_FIELDS[self.ret])
        want_keys = [src for _, src in self.spec['ret_record'] if src.startswith("'")]
        if not (isinstance(v, ast.Dict) and all(isinstance(k, ast.Constant) and isinstance(k.value, str) for k in v.keys)
                and [repr(k.value) for k in v.keys] == want_keys):
            self.fail(s, 'return value must be a dict literal with exactly the keys %s' % ', '.join(want_keys))
        by_key = {repr(k.value): x for k, x in zip(v.keys, v.values)}
        parts = []
        for field, src in self.spec['ret_record']:
            if src.startswith("'"):
                c, t = self.expr(by_key[src])
                c = self.coerce(by_key[src], c, t, fields[field])
            else:
                if src not in self.env:
                    self.fail(s, 'object state `%s` is not initialised' % src)
                c = self.coerce(s, src, self.env[src], fields[field])
            parts.append('%s := %s' % (field, c))
        self.emit(ind, 'return { %s }' % ', '.join(parts))

    def get_append(self, s, ind, stmts, k):
        """`D.get(K).append(V)` directly after `if D.get(K) is None: D[K] = []`"""
        call = s.value
        inner = call.func.value
        if not (isinstance(inner.func.value, ast.Name) and inner.func.attr == 'get' and len(inner.args) == 1
                and not inner.keywords and len(call.args) == 1 and not call.keywords):
            self.fail(s, 'method call statement outside the table')
        name = inner.func.value.id
        if name not in self.env or name in self.params or name not in self.declared:
            self.fail(s, 'variable not in scope / not mutable here (parameters and loop variables alias '
                         'their source and must not be mutated)')
        t = self.env[name]
        if not (isinstance(t, tuple) and t[0] == 'Dict' and isinstance(t[2], tuple) and t[2][0] == 'List'):
            self.fail(s, '`d.get(k).append(v)` needs a dict of lists')
        ksrc = src_of(inner.args[0])
        prev = stmts[k - 1] if k > 0 else None
        if not (isinstance(prev, ast.If) and not prev.orelse
                and src_of(prev.test) == '%s.get(%s) is None' % (name, ksrc)
                and len(prev.body) == 1 and src_of(prev.body[0]) == '%s[%s] = []' % (name, ksrc)
                and isinstance(inner.args[0], ast.Name)):
            self.fail(s, '`%s.get(%s).append(…)` must directly follow `if %s.get(%s) is None: %s[%s] = []`' % (
                name, ksrc, name, ksrc, name, ksrc))
        kc, tk = self.expr(inner.args[0])
        kc = self.coerce(inner.args[0], kc, tk, t[1])
        self.no_alias(call.args[0])
        if any(n.id == name for n in names_in(call.args[0])):
            self.fail(s, 'appended value mentions the dict itself')
        vc, tv = self.expr(call.args[0])
        vc = self.coerce(call.args[0], vc, tv, t[2][1])
        self.emit(ind, '%s := Dict.set %s %s (((Dict.get? %s %s).getD []) ++ [%s])' % (name, name, kc, name, kc, vc))

    def method_stmt(self, s, ind, stmts, k):
        call = s.value
        f = call.func
        if isinstance(f, ast.Attribute) and f.attr == 'append' and isinstance(f.value, ast.Call) \
                and isinstance(f.value.func, ast.Attribute):
            return self.get_append(s, ind, stmts, k)
        if not (isinstance(f, ast.Attribute) and isinstance(f.value, ast.Name)) or call.keywords:
            self.fail(s, 'expression statement outside the table')
        name = f.value.id
        if name not in self.env or name in self.params or name not in self.declared:
            self.fail(s, 'variable not in scope / not mutable here (parameters and loop variables alias '
                         'their source and must not be mutated)')
        t = self.env[name]
        if f.attr == 'append' and len(call.args) == 1 and (t == 'Row' or (isinstance(t, tuple) and t[0] == 'List')):
            self.no_alias(call.args[0], last_use=(stmts, k))
            self.emit(ind, '%s := %s ++ [%s]' % (name, name, self.expr_expect(call.args[0], elem_type(t))))
            return
        if f.attr == 'sort' and not call.args and t == L('Nat'):
            self.emit(ind, '%s := sortNat %s' % (name, name))
            return
        if f.attr == 'insert' and len(call.args) == 2 and isinstance(call.args[0], ast.Constant) \
                and call.args[0].value == 0 and not isinstance(call.args[0].value, bool) \
                and (t == 'Row' or (isinstance(t, tuple) and t[0] == 'List')):
            self.no_alias(call.args[1])
            self.emit(ind, '%s := [%s] ++ %s' % (name, self.expr_expect(call.args[1], elem_type(t)), name))
            return
        # a Python set is modelled as the duplicate-free list of its elements in insertion order (only
        # membership and size of a set are observable to the callers that are translated)
        if f.attr == 'add' and len(call.args) == 1 and isinstance(t, tuple) and t[0] == 'Set':
            c = self.expr_expect(call.args[0], t[1])
            self.emit(ind, '%s := if %s ∈ %s then %s else %s ++ [%s]' % (name, c, name, name, name, c))
            return
        if f.attr == 'update' and len(call.args) == 1 and isinstance(t, tuple) and t[0] == 'Set':
            c, tc = self.expr(call.args[0])
            if tc != L(t[1]):
                self.fail(s, 'set.update with %s' % self.show(tc))
            self.emit(ind, '%s := List.foldl (fun acc a => if a ∈ acc then acc else acc ++ [a]) %s %s' % (name, name, c))
            return
        self.fail(s, 'method call statement outside the table')

    def for_stmt(self, s, ind):
        if s.orelse:
            self.fail(s, 'for/else')
        it = s.iter
        rv = self.spec.get('row_view')
        if rv and src_of(it) == rv['iter']:
            return self.row_view_loop(s, ind, rv)
        targets = []
        if isinstance(s.target, ast.Name):
            targets = [s.target.id]
            pat = s.target.id
        elif isinstance(s.target, ast.Tuple) and len(s.target.elts) == 2 and all(isinstance(x, ast.Name) for x in s.target.elts):
            targets = [x.id for x in s.target.elts]
            pat = '(%s, %s)' % tuple(targets)
        else:
            self.fail(s.target, 'loop target outside the table')
        for n in targets:
            if n in self.env:
                self.fail(s.target, 'loop variable `%s` shadows a variable in scope' % n)
            if n not in self.locals:
                self.fail(s.target, 'loop variable `%s` not in the type table' % n)
            if n in assigned_names(s.body):
                self.fail(s.target, 'loop variable `%s` is reassigned in the loop' % n)
        # iterable
        if isinstance(it, ast.Call) and isinstance(it.func, ast.Name) and it.func.id == 'xrange':
            self.need_import(it, 'xrange')
            if len(it.args) != 2 or it.keywords or len(targets) != 1:
                self.fail(it, 'only `xrange(a, b)` is in the table')
            (a, ta), (b, tb) = self.expr(it.args[0]), self.expr(it.args[1])
            a, b = self.coerce(it, a, ta, 'Int'), self.coerce(it, b, tb, 'Int')
            code = '(List.map (fun (i : Nat) => %s + Int.ofNat i) (List.range (%s - %s).toNat))' % (a, b, a)
            ety = 'Int'
        elif isinstance(it, ast.Call) and isinstance(it.func, ast.Attribute) and it.func.attr == 'itertuples' \
                and isinstance(it.func.value, ast.Name) and it.func.value.id in self.spec.get('frames', []) \
                and not it.args and len(it.keywords) == 1 and it.keywords[0].arg == 'index' \
                and isinstance(it.keywords[0].value, ast.Constant) and it.keywords[0].value.value is False:
            # the rows of a DataFrame (a parameter holding its rows)
            code, t = self.expr(it.func.value)
            ety = elem_type(t)
        elif isinstance(it, ast.Call) and isinstance(it.func, ast.Name) and it.func.id == 'iteritems' \
                and len(it.args) == 1 and not it.keywords:
            if self.imports.get('iteritems') != ('six', 'iteritems'):
                self.fail(it, '`iteritems` must be imported from six')
            code, t = self.expr(it.args[0])
            if not (isinstance(t, tuple) and t[0] == 'Dict'):
                self.fail(it, 'iteritems of %s' % self.show(t))
            ety = P(t[1], t[2])          # insertion order
        else:
            code, t = self.expr(it)
            ety = elem_type(t)
            if isinstance(t, tuple) and t[0] == 'Set':
                ety = t[1]               # insertion order of the modelled set (see NOTES.md)
            if ety is None:
                self.fail(it, 'iteration over a value of type %s is outside the table' % self.show(t))
        # the iterated expression must not be mutated by the body
        for n in names_in(it):
            if n.id in assigned_names(s.body) or self.mutates(s.body, n.id):
                self.fail(it, 'loop body modifies `%s`, which the iterable depends on' % n.id)
        if len(targets) == 1:
            want = [self.locals[targets[0]]]
            if want[0] != ety:
                self.fail(s.target, 'loop variable typed %s but elements are %s' % (self.show(want[0]), self.show(ety)))
        else:
            if not (isinstance(ety, tuple) and ety[0] == 'Prod'):
                self.fail(s.target, 'tuple target over non-pairs')
            for n, te in zip(targets, ety[1:]):
                if self.locals[n] != te:
                    self.fail(s.target, 'loop variable `%s` typed %s but component is %s' % (n, self.show(self.locals[n]), self.show(te)))
        self.emit(ind, 'for %s in %s do' % (pat, code))
        saved = dict(self.env)
        for n in targets:
            self.env[n] = self.locals[n]
        self.loop_vars.append(set(targets))
        self.loop_bodies.append(s.body)
        self.narrowed -= set(assigned_names(s.body))
        self.block(s.body, ind + 1)
        self.narrowed -= set(assigned_names(s.body))
        self.loop_bodies.pop()
        self.loop_vars.pop()
        self.env = {n: t for n, t in self.env.items() if n in saved}

    def row_view_loop(self, s, ind, rv):
        """`for row in self.table:` whose body starts with the fixed chain of assignments computing the
        view variable from the row: translated as a loop of the view variable over the view parameter"""
        if self.view_used:
            self.fail(s, 'the row view may be iterated only once')
        self.view_used = True
        if self.loop_vars:
            self.fail(s, 'row view loop must not be nested')
        if not (isinstance(s.target, ast.Name) and s.target.id == rv['var']):
            self.fail(s.target, 'row view loop variable must be `%s`' % rv['var'])
        n = len(rv['steps'])
        got = [src_of(x) for x in s.body[:n]]
        want = [src_of(ast.parse(x).body[0]) for x in rv['steps']]
        if got != want:
            self.fail(s, 'row view loop must start with exactly: %s' % ' ; '.join(want))
        rest = s.body[n:]
        view = rv['view']
        for x in rest:
            for nm in names_in(x):
                if nm.id in rv['hidden']:
                    self.fail(nm, '`%s` is used outside the row view' % nm.id)
        if assigned_names(self.func.body).count(view) != 1:
            self.fail(s, 'view variable `%s` is assigned more than once' % view)
        for nm in names_in(self.func):
            if nm.id in rv['hidden'] + [view] and not (s.lineno <= nm.lineno <= s.end_lineno):
                self.fail(nm, '`%s` is used outside the row view loop' % nm.id)
        if view in self.mutated:
            self.fail(s, 'view variable `%s` is mutated' % view)
        pt = self.params[rv['param']]
        if self.locals.get(view) != elem_type(pt):
            self.fail(s, 'view variable `%s` is not typed as an element of `%s`' % (view, rv['param']))
        self.notes.append('%s:%d rows of `%s` seen through the view `%s` = [%s for each row]' % (
            self.fname, s.lineno, rv['iter'], rv['param'], want[-1].split(' = ', 1)[1]))
        self.emit(ind, 'for %s in %s do' % (view, rv['param']))
        saved = dict(self.env)
        self.env[view] = self.locals[view]
        self.loop_vars.append({view})
        self.loop_bodies.append(rest)
        self.block(rest, ind + 1)
        self.loop_bodies.pop()
        self.loop_vars.pop()
        self.env = {k: t for k, t in self.env.items() if k in saved}

    def mutates(self, stmts, name):
        for s in stmts:
            for node in ast.walk(s):
                if isinstance(node, ast.Call) and isinstance(node.func, ast.Attribute) \
                        and node.func.attr in ('append', 'sort', 'add', 'update', 'insert') and isinstance(node.func.value, ast.Name) \
                        and node.func.value.id == name:
                    return True
                if isinstance(node, ast.Assign):
                    for t in node.targets:
                        if isinstance(t, ast.Subscript) and isinstance(t.value, ast.Name) and t.value.id == name:
                            return True
        return False

    @staticmethod
    def ends_in_jump(stmts):
        return bool(stmts) and isinstance(stmts[-1], (ast.Return, ast.Continue))

    def if_stmt(self, s, ind, stmts, k, kw='if'):
        test = s.test
        if isinstance(test, ast.Name) and test.id in self.spec.get('ignore_if', []) and kw == 'if':
            # progress bar: `if show_progress: prog_bar = pyprind.ProgBar(…)` / `prog_bar.update()`
            def harmless(x):
                src = src_of(x)
                if src == 'prog_bar.update()':
                    return True
                def lens(a):
                    if isinstance(a, ast.BinOp) and isinstance(a.op, ast.Add):
                        return lens(a.left) and lens(a.right)
                    return isinstance(a, ast.Call) and isinstance(a.func, ast.Name) and a.func.id == 'len' \
                        and len(a.args) == 1 and isinstance(a.args[0], ast.Name) and not a.keywords
                if isinstance(x, ast.Assign) and src.startswith('prog_bar = pyprind.ProgBar(') \
                        and isinstance(x.value, ast.Call) and len(x.value.args) == 1 and not x.value.keywords \
                        and lens(x.value.args[0]):
                    return True
                return isinstance(x, ast.Expr) and isinstance(x.value, ast.Call) and src.startswith('print(') \
                    and len(x.value.args) == 1 and isinstance(x.value.args[0], ast.Constant)
            ok = not s.orelse and all(harmless(x) for x in s.body)
            if not ok:
                self.fail(s, '`if %s:` may only guard the pyprind progress bar' % test.id)
            note = '%s: `if %s:` progress-bar statements are ignored' % (self.fname, test.id)
            if note not in self.notes:
                self.notes.append(note)
            return
        # `if x is None: … return/continue` narrows x afterwards
        narrow_after = None
        if isinstance(test, ast.Compare) and len(test.ops) == 1 and isinstance(test.ops[0], ast.Is) \
                and isinstance(test.left, ast.Name) and not s.orelse and self.ends_in_jump(s.body):
            if test.left.id in self.params and test.left.id not in self.rebound_params \
                    and test.left.id not in self.spec.get('retype', {}):      # never reassigned
                narrow_after = test.left.id
        c, narrow_in = self.truthy(test)
        self.emit(ind, '%s %s then' % (kw, c))
        saved = set(self.narrowed)
        for nm in ([narrow_in] if isinstance(narrow_in, str) else (narrow_in or [])):
            if nm not in assigned_names(s.body):
                self.narrowed.add(nm)
        self.block(s.body, ind + 1)
        end_body = None if self.ends_in_jump(s.body) else set(self.narrowed)
        after = set(saved) - set(assigned_names(s.body)) - set(assigned_names(s.orelse))
        self.narrowed = set(saved)          # the else branch starts from the state before the `if`
        if isinstance(test, ast.Compare) and len(test.ops) == 1 and isinstance(test.ops[0], ast.Is) \
                and isinstance(test.left, ast.Name) and isinstance(test.comparators[0], ast.Constant) \
                and test.comparators[0].value is None and test.left.id not in assigned_names(s.orelse):
            self.narrowed.add(test.left.id)          # `if x is None: … else:` — x is not None in the else branch
        if s.orelse:
            if len(s.orelse) == 1 and isinstance(s.orelse[0], ast.If):
                self.no_raise_ctx += 1
                try:
                    self.truthy(s.orelse[0].test)      # an elif test must not raise (checked on a dry run)
                finally:
                    self.no_raise_ctx -= 1
                self.if_stmt(s.orelse[0], ind, s.orelse, 0, kw='else if')
            else:
                self.emit(ind, 'else')
                self.block(s.orelse, ind + 1)
        end_else = set(self.narrowed) if s.orelse and not self.ends_in_jump(s.orelse) else \
            (None if s.orelse else set(saved))
        # facts that hold at the end of every branch that falls through
        if end_body is not None and end_else is not None:
            after |= end_body & end_else
        elif end_body is not None:
            after |= end_body
        elif end_else is not None:
            after |= end_else
        self.narrowed = after
        if narrow_after is not None and kw == 'if':
            self.narrowed.add(narrow_after)

    # ---- object state ----------------------------------------------------------------------------
    def object_state(self, body):
        """`self.X` (X in the state table) becomes the local `self_X`; state that `build` does not
        assign itself starts with the value given by `__init__`, which must be the expected one"""
        state = {attr: (local, init) for attr, local, init in self.spec['state']}

        class Rename(ast.NodeTransformer):
            def visit_Attribute(self_, n):
                if isinstance(n.value, ast.Name) and n.value.id == 'self' and n.attr in state:
                    return ast.copy_location(ast.Name(id=state[n.attr][0], ctx=n.ctx), n)
                return self_.generic_visit(n)

        for n in names_in(self.func):
            if n.id in [l for l, _ in state.values()]:
                self.fail(n, 'name clashes with the object state')
        cls = [c for c in self.module.body if isinstance(c, ast.ClassDef) and c.name == self.spec['cls']][0]
        inits = [m for m in cls.body if isinstance(m, ast.FunctionDef) and m.name == '__init__']
        if len(inits) != 1:
            self.fail(cls, '__init__ not found exactly once')
        pre = []
        for attr, local, init in self.spec['state']:
            if init is None:
                continue
            found = [st for st in ast.walk(inits[0]) if isinstance(st, (ast.Assign, ast.AugAssign))
                     and any(src_of(t) == 'self.%s' % attr for t in
                             (st.targets if isinstance(st, ast.Assign) else [st.target]))]
            top = [st for st in inits[0].body if st in found]
            if len(found) != 1 or len(top) != 1 or not isinstance(found[0], ast.Assign) \
                    or len(found[0].targets) != 1 or src_of(found[0].value) != init:
                self.fail(inits[0], '__init__ must set `self.%s = %s` exactly once, unconditionally' % (attr, init))
            a = ast.Assign(targets=[ast.Name(id=local, ctx=ast.Store())], value=found[0].value)
            ast.copy_location(a, found[0])
            ast.copy_location(a.targets[0], found[0].targets[0])
            pre.append(a)
            self.notes.append('%s:%d initial value of `self.%s` taken from __init__ (`%s`)' % (
                self.fname, found[0].lineno, attr, init))
        self.func = Rename().visit(self.func)
        ast.fix_missing_locations(self.func)
        body = [s for s in self.func.body]
        doc = [s for s in body[:1] if isinstance(s, ast.Expr) and isinstance(s.value, ast.Constant)]
        self.func.body = doc + pre + body[len(doc):]
        return list(self.func.body)

    # ---- function --------------------------------------------------------------------------------
    def function(self):
        f = self.func
        a = f.args
        if a.vararg or a.kwarg or a.kwonlyargs or a.posonlyargs:
            self.fail(f, 'parameter kinds outside the table')
        pynames = [x.arg for x in a.args]
        want = [p for p, _ in self.spec['params']]
        if 'pyparams' in self.spec:
            if pynames != self.spec['pyparams']:
                self.fail(f, 'parameter list %s differs from the type table %s' % (pynames, self.spec['pyparams']))
            pynames = want
        elif self.spec['cls'] and 'self' not in want:
            if pynames[:1] != ['self']:
                self.fail(f, 'method without self')
            for n in names_in(f):
                if n.id == 'self':
                    self.fail(n, '`self` is used but the type table gives the function no filter object')
            pynames = pynames[1:]
        if pynames != want:
            self.fail(f, 'parameter list %s differs from the type table %s' % (pynames, want))
        if f.decorator_list:
            self.fail(f, 'decorators')
        # defaults: only None (callers in the package always pass the argument explicitly)
        for arg, d in zip(a.args[len(a.args) - len(a.defaults):], a.defaults):
            if isinstance(d, ast.Constant) and d.value is None:
                continue
            if isinstance(d, ast.Constant) and isinstance(d.value, bool) and self.params.get(arg.arg) == 'Bool':
                continue
            if arg.arg in self.spec.get('unused_params', []):
                continue
            if self.spec.get('unused_defaults') and isinstance(d, ast.Constant):
                continue      # the generated function takes every argument explicitly
            self.fail(d, 'parameter default outside the table')
        for n in ast.walk(f):
            if isinstance(n, (ast.Global, ast.Nonlocal, ast.Lambda, ast.FunctionDef, ast.ClassDef,
                              ast.Yield, ast.YieldFrom, ast.Await, ast.While, ast.Try, ast.With,
                              ast.Delete, ast.Raise, ast.Assert, ast.Break, ast.ListComp, ast.DictComp,
                              ast.SetComp, ast.GeneratorExp, ast.NamedExpr, ast.Starred)) and n is not f:
                self.fail(n, '%s is outside the table' % type(n).__name__)
        for u in self.spec.get('unused_params', []):
            if any(n.id == u for n in names_in(f)):
                self.fail(f, 'parameter `%s` is declared unused in the type table but is used' % u)
        body = list(f.body)
        if self.spec.get('state'):
            body = self.object_state(body)
        self.analyse(body)
        self.compute_flags()
        self.env = dict(self.params)
        body = self.detect_cache(body)
        def ends_in_return(stmts):
            if not stmts:
                return False
            last = stmts[-1]
            if isinstance(last, ast.Return):
                return True
            return isinstance(last, ast.If) and ends_in_return(last.body) and ends_in_return(last.orelse)
        if not ends_in_return(body):
            self.fail(f, 'function body must end in `return` on every path')
        sig = ' '.join('(%s : %s)' % (p, lean_type(t)) for p, t in self.spec['params'])
        if self.spec.get('tyvars'):
            sig = self.spec['tyvars'] + ' ' + sig
        fuel = self.spec.get('fuel')
        ind = 2 if fuel else 1
        for p_, t_ in self.spec['params']:
            if p_ in self.rebound_params:
                self.emit(ind, 'let mut %s : %s := %s' % (p_, lean_type(t_), p_))
                self.declared.add(p_)
        if fuel:
            # Python recursion: structural recursion on an explicit fuel argument; when it runs out (Python:
            # RecursionError) the value from the type table is returned
            if 'fuel' in self.params or 'fuel' in self.locals:
                self.fail(f, 'name clash with the fuel argument')
            head = 'def %s %s : %s :=\n  match fuel with\n  | 0 => %s\n  | fuel + 1 => Id.run do' % (
                self.spec['lean'], sig.replace('(', '(fuel : Nat) (', 1) if not self.spec.get('tyvars')
                else self.spec['tyvars'] + ' (fuel : Nat) ' + sig[len(self.spec['tyvars']) + 1:],
                lean_type(self.ret), fuel['exhausted'])
        elif self.spec.get('raises'):
            # the Python function may raise: result in `Except PyErr`, statements in that monad
            head = 'def %s %s : Except PyErr %s := do' % (self.spec['lean'], sig, lean_type(self.ret, False))
        else:
            head = 'def %s %s : %s := Id.run do' % (self.spec['lean'], sig, lean_type(self.ret))
        self.top_body = body
        self.block(body, ind)
        return head + '\n' + '\n'.join(self.out) + '\n'


# ------------------------------------------------------------------------------------------------
def find_function(module, cls, name, fname):
    scope = module.body
    if cls:
        cs = [s for s in module.body if isinstance(s, ast.ClassDef) and s.name == cls]
        if len(cs) != 1:
            raise Untranslatable('%s: class %s not found exactly once' % (fname, cls))
        scope = cs[0].body
    fs = [s for s in scope if isinstance(s, ast.FunctionDef) and s.name == name]
    if len(fs) != 1:
        raise Untranslatable('%s: function %s%s not found exactly once' % (fname, cls + '.' if cls else '', name))
    return fs[0]


def check_method_contract(repo, key, cache):
    rel, cls, expected, _, _, _ = METHODS[key]
    if rel not in cache:
        src = open(os.path.join(repo, rel), encoding='utf-8').read()
        cache[rel] = (src, ast.parse(src, filename=rel))
    src, mod = cache[rel]
    f = find_function(mod, cls, key[1], rel)
    body = [s for s in f.body if not (isinstance(s, ast.Expr) and isinstance(s.value, ast.Constant))]
    got = '\n'.join(ast.unparse(s) for s in body)
    args = [a.arg for a in f.args.args]
    if got != expected or len(args) != 2 or args[0] != 'self' or args[1] not in expected or f.decorator_list:
        raise Untranslatable('%s:%d: %s.%s is expected to be `def %s(self, token): %s` but is `%s`' % (
            rel, f.lineno, cls, key[1], key[1], expected, got))


# generated files: name -> (imports, title, proof file)
OUTPUTS = {
    'Loops': (['SSJ.Model.Filters'], 'stage 2: loop helpers, typed `do`-notation', 'SSJ/Proofs/GenLoops.lean'),
    'Loops2': (['SSJ.Gen.Loops', 'SSJ.Model.Joins'],
               'stage 3: filters, indexes and join workers, typed `do`-notation', 'SSJ/Proofs/GenLoops2.lean'),
    'Loops3': (['SSJ.Gen.Loops2', 'SSJ.Model.Matcher', 'SSJ.Model.Profiler'],
               'stage 4: functions that may raise (matcher, filter_candset), `Except PyErr` do-notation',
               'SSJ/Proofs/GenLoops3.lean'),
}


PRELUDE = {'Loops3': '''set_option linter.unusedVariables false

/-- the raw value of a `sim_function` argument known not to have been replaced by its tokens yet -/
def simArgCell : SimArg → Cell
  | .raw c => c
  | .toks _ => Cell.missing

/-- `str(x)` of the double `round(·, 2)` returned for a percentage (CPython's repr; modelled in
    SSJ/Model/Profiler.lean) -/
def strOfPercent : PyV → String
  | .float q => Profiler.pctToString q
  | _ => "?"

''', 'Loops2': '''set_option linter.unusedVariables false

/-- a Python tuple `(token, occurrence)` as built by `_number_repeated_tokens`; Python compares tuples
    lexicographically -/
structure NumTok where
  tok : Nat
  occ : Nat
  deriving DecidableEq, Inhabited, Repr

instance : LT NumTok := ⟨fun a b => a.tok < b.tok ∨ (a.tok = b.tok ∧ a.occ < b.occ)⟩
instance : DecidableLT NumTok := fun a b =>
  inferInstanceAs (Decidable (a.tok < b.tok ∨ (a.tok = b.tok ∧ a.occ < b.occ)))

'''}


def generate(repo):
    cache = {}
    outs = {}
    for spec in SPECS:
        out = spec.get('out', 'Loops')
        o = outs.setdefault(out, dict(pieces=[], names=[], notes=[], used=[]))
        rel = spec['file']
        if rel not in cache:
            src = open(os.path.join(repo, rel), encoding='utf-8').read()
            cache[rel] = (src, ast.parse(src, filename=rel))
        if rel not in o['used']:
            o['used'].append(rel)
        src, mod = cache[rel]
        func = find_function(mod, spec['cls'], spec['py'], rel)
        spec = dict(spec, _repo=repo)
        tr = Tr(spec, rel, mod, func)
        text = tr.function()
        for rel2 in tr.extra_sources:
            if rel2 not in cache:
                src2 = open(os.path.join(repo, rel2), encoding='utf-8').read()
                cache[rel2] = (src2, ast.parse(src2, filename=rel2))
            if rel2 not in o['used']:
                o['used'].append(rel2)
        # method contracts of the record types this function mentions
        for (rt, m) in sorted(METHODS):
            if any(t == rt for _, t in spec['params']) and any(
                    isinstance(n, ast.Attribute) and n.attr == m for n in ast.walk(func)):
                check_method_contract(repo, (rt, m), cache)
                if METHODS[(rt, m)][0] not in o['used']:
                    o['used'].append(METHODS[(rt, m)][0])
        for rel2, cls2, name2, expected in spec.get('contracts', []):
            check_source_contract(repo, rel2, cls2, name2, expected, cache)
            if rel2 not in o['used']:
                o['used'].append(rel2)
        where = '%s%s' % (spec['cls'] + '.' if spec['cls'] else '', spec['py'])
        o['pieces'].append('/-- `%s` (%s:%d) ↔ `%s` -/\n%s' % (where, rel, func.lineno, spec['model'], text))
        o['names'].append(spec['lean'])
        for n in tr.notes:
            if n not in o['notes']:
                o['notes'].append(n)
    files = {}
    for out in OUTPUTS:
        if out not in outs:
            continue
        o = outs[out]
        imports, title, proofs = OUTPUTS[out]
        shas = [(rel, hashlib.sha256(cache[rel][0].encode('utf-8')).hexdigest()) for rel in o['used']]
        header = '/- GENERATED by tools/py2lean2.py (%s) — do not edit.\n' % title
        header += '   Sources:\n'
        for rel, h in shas:
            header += '     %s (sha256 %s)\n' % (rel, h)
        header += '   The equality of every function below with its hand-model counterpart is proved in\n'
        header += '   %s. -/\n' % proofs
        header += ''.join('import %s\n' % i for i in imports) + 'namespace SSJ.Gen2\nopen SSJ\n\n'
        header += PRELUDE.get(out, '')
        text = header + '\n'.join(o['pieces']) + '\nend SSJ.Gen2\n'
        files[out] = (text, o['names'], shas, o['notes'])
    return files


def check_source_contract(repo, rel, cls, name, expected, cache):
    """a library function that is modelled, not translated: its body must be exactly `expected`"""
    if rel not in cache:
        src = open(os.path.join(repo, rel), encoding='utf-8').read()
        cache[rel] = (src, ast.parse(src, filename=rel))
    f = find_function(cache[rel][1], cls, name, rel)
    body = [s for s in f.body if not (isinstance(s, ast.Expr) and isinstance(s.value, ast.Constant))]
    got = '\n'.join(ast.unparse(s) for s in body)
    want = '\n'.join(ast.unparse(s) for s in ast.parse(expected).body)
    if got != want or f.decorator_list:
        raise Untranslatable('%s:%d: %s is modelled under the assumption that its body is\n%s\nbut it is\n%s' % (
            rel, f.lineno, name, want, got))


def main():
    if len(sys.argv) != 3:
        sys.stderr.write(__doc__)
        sys.exit(2)
    repo, outdir = sys.argv[1], sys.argv[2]
    summary = {'files': [], 'functions': [], 'notes': [], 'error': None}
    try:
        files = generate(repo)
        os.makedirs(outdir, exist_ok=True)
        for out, (text, names, shas, notes) in files.items():
            path = os.path.join(outdir, out + '.lean')
            old = open(path, encoding='utf-8').read() if os.path.exists(path) else None
            if old != text:
                with open(path, 'w', encoding='utf-8') as fh:
                    fh.write(text)
            summary['files'].append({'lean': out + '.lean', 'changed': old != text,
                                     'sha256': hashlib.sha256(text.encode('utf-8')).hexdigest(),
                                     'sources': [{'source': r, 'sha256': h} for r, h in shas]})
            summary['functions'] += names
            summary['notes'] += [n for n in notes if n not in summary['notes']]
    except (Untranslatable, SyntaxError, OSError) as e:
        summary['error'] = str(e)
        print(json.dumps(summary, ensure_ascii=False))
        sys.stderr.write('py2lean2: %s\n' % e)
        sys.exit(3)
    except Exception as e:          # a shape the translator did not anticipate: refuse, never guess
        import traceback
        tb = traceback.extract_tb(e.__traceback__)[-1]
        summary['error'] = 'internal: %s: %s (py2lean2.py:%d) — treated as outside the table' % (
            type(e).__name__, e, tb.lineno)
        print(json.dumps(summary, ensure_ascii=False))
        sys.stderr.write('py2lean2: %s\n' % summary['error'])
        sys.exit(3)
    print(json.dumps(summary, ensure_ascii=False))


if __name__ == '__main__':
    main()

#!/usr/bin/env python3
"""py2lean2 — stage-2 translator: the small LOOP-based helpers of py_stringsimjoin into TYPED Lean 4
`do`-notation (`Id.run do … let mut … for x in xs do … if c then continue …`).

Unlike stage 1 (py2lean.py: pure expressions over the dynamically typed `PyV` domain) the output here
is typed.  The Lean types of parameters and locals are NOT inferred: they come from the per-function
table `SPECS` below (the same typing the hand model uses).  The statements are translated one by one
through the small table of idioms implemented by `Tr.expr` / `Tr.stmt`; every expression is
type-checked against the table on the way (so a swapped argument, a changed operator or a dropped
statement either changes the generated Lean or is rejected).  ANY construct outside the table raises
`Untranslatable` with the source location (exit code 3).  Nothing is guessed.

Usage: py2lean2.py <repo_root> <out_dir>     writes <out_dir>/Loops.lean, prints a JSON summary.
       exit 0 = ok, 2 = usage, 3 = construct outside the accepted subset / missing source.
The output is a pure function of the sources: regenerating from unchanged sources is byte-identical.
"""
import ast
import hashlib
import json
import os
import sys


class Untranslatable(Exception):
    pass


# ------------------------------------------------------------------------------------------------
# types
# ------------------------------------------------------------------------------------------------
# atoms: 'Nat' 'Int' 'Bool' 'String' 'Cell' 'Row' (= List Cell, indexed with Row.cell)
# records: 'InvIndex' 'PosIndex' 'FilterObj'
# ('List', T)  ('Option', T)  ('Dict', K, V)  ('Prod', A, B)
def L(t):
    return ('List', t)


def O(t):
    return ('Option', t)


def D(k, v):
    return ('Dict', k, v)


def P(a, b):
    return ('Prod', a, b)


def lean_type(t, top=True):
    if isinstance(t, str):
        return t
    k = t[0]
    if k == 'List':
        s = 'List %s' % lean_type(t[1], False)
    elif k == 'Option':
        s = 'Option %s' % lean_type(t[1], False)
    elif k == 'Dict':
        s = 'List (%s × %s)' % (lean_type(t[1]), lean_type(t[2]))
    elif k == 'Prod':
        s = '%s × %s' % (lean_type(t[1], False), lean_type(t[2], False))
    else:
        raise AssertionError(t)
    return s if top else '(%s)' % s


def default_of(t):
    """value used for hoisted declarations and narrowed `Option.getD` (never observable when the
    Python program does not raise: see NOTES.md)"""
    if t in ('Nat', 'Int'):
        return '0'
    if t == 'Bool':
        return 'false'
    if t == 'String':
        return '""'
    if t == 'Cell':
        return 'Cell.missing'
    if t == 'Row':
        return '[]'
    if isinstance(t, tuple):
        if t[0] in ('List', 'Dict'):
            return '[]'
        if t[0] == 'Option':
            return 'none'
        if t[0] == 'Prod':
            return '(%s, %s)' % (default_of(t[1]), default_of(t[2]))
    raise AssertionError(t)


def elem_type(t):
    if t == 'Row':
        return 'Cell'
    if isinstance(t, tuple) and t[0] == 'List':
        return t[1]
    if isinstance(t, tuple) and t[0] == 'Dict':      # only via list(d.items())
        return None
    return None


def is_mutable_type(t):
    return t == 'Row' or (isinstance(t, tuple) and t[0] in ('List', 'Dict'))


# record attributes:  (record type, python attribute) -> (lean projection, type)
ATTRS = {
    ('InvIndex', 'index'): ('index', D('String', L('Nat'))),
    ('PosIndex', 'index'): ('index', D('Nat', L(P('Nat', 'Nat')))),
    ('PosIndex', 'size_cache'): ('sizeCache', L('Nat')),
    ('PosIndex', 'min_length'): ('minLength', 'Int'),
    ('PosIndex', 'max_length'): ('maxLength', 'Int'),
}

# record methods: (record type, method) -> (python file, class, expected source of the method body,
#                                            lean template, arg types, result type)
# The translator re-parses the method and insists its body is exactly the expected one-liner.
METHODS = {
    ('InvIndex', 'probe'): ('py_stringsimjoin/index/inverted_index.py', 'InvertedIndex',
                            'return self.index.get(token, [])',
                            'probe {recv}.index {0}', ['String'], L('Nat')),
    ('PosIndex', 'probe'): ('py_stringsimjoin/index/position_index.py', 'PositionIndex',
                            'return self.index.get(token, [])',
                            'probe {recv}.index {0}', ['Nat'], L(P('Nat', 'Nat'))),
}

# calls of the (stage-1 generated) filter_utils functions on a filter object `self : FilterObj`:
#   name -> (number of leading Nat arguments, required trailing arguments, lean field of FCfg, result)
FILTER_UTILS = 'py_stringsimjoin.filter.filter_utils'
CFG_CALLS = {
    'get_size_lower_bound': (1, ['self.sim_measure_type', 'self.threshold'], 'lower', 'Int'),
    'get_size_upper_bound': (1, ['self.sim_measure_type', 'self.threshold'], 'upper', 'Int'),
    'get_prefix_length': (1, ['self.sim_measure_type', 'self.threshold', 'self.tokenizer'], 'prefixLen', 'Int'),
    'get_overlap_threshold': (2, ['self.sim_measure_type', 'self.threshold', 'self.tokenizer'], 'ovThr', 'Int'),
}

# fields of the record a function may return:  record -> [(lean field, type)]
RECORD_FIELDS = {
    'PosIndex': [('index', D('Nat', L(P('Nat', 'Nat')))), ('sizeCache', L('Nat')), ('minLength', 'Int'),
                 ('maxLength', 'Int'), ('cachedTokens', L(L('Nat'))), ('emptyRecords', L('Nat'))],
}

# names that must be bound by exactly this import in the module for the idiom to apply
REQUIRED_IMPORTS = {
    'maxsize': ('sys', 'maxsize'),
    'itemgetter': ('operator', 'itemgetter'),
    'xrange': ('six.moves', 'xrange'),
    'get_size_lower_bound': (FILTER_UTILS, 'get_size_lower_bound'),
    'get_size_upper_bound': (FILTER_UTILS, 'get_size_upper_bound'),
    'get_prefix_length': (FILTER_UTILS, 'get_prefix_length'),
    'get_overlap_threshold': (FILTER_UTILS, 'get_overlap_threshold'),
}
BUILTINS_USED = ('len', 'min', 'max', 'sorted', 'list')

# ------------------------------------------------------------------------------------------------
# per-function signature / type table
# ------------------------------------------------------------------------------------------------
GH = 'py_stringsimjoin/utils/generic_helper.py'
TO = 'py_stringsimjoin/utils/token_ordering.py'
OF = 'py_stringsimjoin/filter/overlap_filter.py'
PF = 'py_stringsimjoin/filter/position_filter.py'
PI = 'py_stringsimjoin/index/position_index.py'

SPECS = [
    dict(lean='remove_redundant_attrs', file=GH, cls=None, py='remove_redundant_attrs',
         model='SSJ.removeRedundantAttrs',
         params=[('out_attrs', O(L('String'))), ('key_attr', 'String')], ret=O(L('String')),
         locals={'uniq_attrs': L('String'), 'seen_attrs': D('String', 'Bool'), 'attr': 'String'}),
    dict(lean='get_attrs_to_project', file=GH, cls=None, py='get_attrs_to_project',
         model='SSJ.getAttrsToProject',
         params=[('out_attrs', O(L('String'))), ('key_attr', 'String'), ('join_attr', 'String')],
         ret=L('String'),
         locals={'proj_attrs': L('String'), 'attr': 'String'}),
    dict(lean='find_output_attribute_indices', file=GH, cls=None, py='find_output_attribute_indices',
         model='SSJ.findOutputAttributeIndices',
         params=[('original_columns', L('String')), ('output_attributes', O(L('String')))],
         ret=L('Nat'),
         locals={'output_attribute_indices': L('Nat'), 'attr': 'String'}),
    dict(lean='get_output_header_from_tables', file=GH, cls=None, py='get_output_header_from_tables',
         model='SSJ.getOutputHeader',
         params=[('l_key_attr', 'String'), ('r_key_attr', 'String'),
                 ('l_out_attrs', O(L('String'))), ('r_out_attrs', O(L('String'))),
                 ('l_out_prefix', 'String'), ('r_out_prefix', 'String')],
         ret=L('String'),
         locals={'output_header': L('String'), 'l_attr': 'String', 'r_attr': 'String'}),
    dict(lean='get_output_row_from_tables', file=GH, cls=None, py='get_output_row_from_tables',
         model='SSJ.getOutputRow',
         params=[('l_row', 'Row'), ('r_row', 'Row'),
                 ('l_key_attr_index', 'Nat'), ('r_key_attr_index', 'Nat'),
                 ('l_out_attrs_indices', L('Nat')), ('r_out_attrs_indices', L('Nat'))],
         ret='Row',
         locals={'output_row': 'Row', 'l_attr_index': 'Nat', 'r_attr_index': 'Nat'}),
    dict(lean='order_using_token_ordering', file=TO, cls=None, py='order_using_token_ordering',
         model='SSJ.orderUsing',
         params=[('tokens', L('String')), ('token_ordering', D('String', 'Nat'))], ret=L('Nat'),
         locals={'ordered_tokens': L('Nat'), 'token': 'String', 'order': O('Nat')}),
    dict(lean='gen_token_ordering_for_lists', file=TO, cls=None, py='gen_token_ordering_for_lists',
         model='SSJ.genTokenOrdering',
         params=[('token_lists', L(L('String')))], ret=D('String', 'Nat'),
         locals={'token_freq_dict': D('String', 'Nat'), 'token_list': L('String'), 'token': 'String',
                 'order_idx': 'Nat', 'ordered_tokens': L(P('String', 'Nat')),
                 'token_ordering': D('String', 'Nat'), 'token_freq_tuple': P('String', 'Nat')}),
    dict(lean='OverlapFilter_find_candidates', file=OF, cls='OverlapFilter', py='find_candidates',
         model='SSJ.overlapFindCandidates',
         params=[('probe_tokens', L('String')), ('inverted_index', 'InvIndex')],
         ret=D('Nat', 'Int'),
         locals={'candidate_overlap': D('Nat', 'Int'), 'token': 'String', 'cand': 'Nat'}),
    dict(lean='PositionFilter_find_candidates', file=PF, cls='PositionFilter', py='find_candidates',
         model='SSJ.positionFindCandidates',
         params=[('self', 'FilterObj'), ('probe_tokens', L('Nat')), ('position_index', 'PosIndex')],
         ret=D('Nat', 'Int'), cfg='self.cfg',
         locals={'probe_num_tokens': 'Nat', 'size_lower_bound': 'Int', 'size_upper_bound': 'Int',
                 'overlap_threshold_cache': 'Cache', 'size': 'Int',
                 'probe_prefix_length': 'Int', 'candidate_overlap': D('Nat', 'Int'),
                 'probe_pos': 'Nat', 'token': 'Nat', 'cand': 'Nat', 'cand_pos': 'Nat',
                 'current_overlap': 'Int', 'cand_num_tokens': 'Nat', 'overlap_upper_bound': 'Int'}),
    # PositionIndex.build: the object state `self.X` becomes the mutable locals `self_X` (those not
    # assigned by `build` itself start with the value `__init__` gives them, which is checked); the
    # rows are seen through the view `ordered_rows` = for each row of `self.table` the value of
    # `order_using_token_ordering(self.tokenizer.tokenize(row[self.index_attr]), self.token_ordering)`
    # (the tokenizer is not modelled; the hand model takes the same list); the result record collects
    # the final state and the two entries of the returned dict.
    dict(lean='PositionIndex_build', file=PI, cls='PositionIndex', py='build', model='SSJ.PosIndex.build',
         pyparams=['self', 'cache_empty_records', 'cache_tokens'],
         params=[('cfg', 'FCfg'), ('ordered_rows', L(L('Nat'))),
                 ('cache_empty_records', 'Bool'), ('cache_tokens', 'Bool')],
         ret='PosIndex', cfg='cfg',
         state=[('index', 'self_index', None), ('size_cache', 'self_size_cache', None),
                ('min_length', 'self_min_length', 'maxsize'), ('max_length', 'self_max_length', '0')],
         row_view=dict(iter='self.table', var='row',
                       steps=['index_string = row[self.index_attr]',
                              'index_attr_tokens = order_using_token_ordering('
                              'self.tokenizer.tokenize(index_string), self.token_ordering)'],
                       hidden=['row', 'index_string'], view='index_attr_tokens', param='ordered_rows'),
         ret_record=[('index', 'self_index'), ('sizeCache', 'self_size_cache'),
                     ('minLength', 'self_min_length'), ('maxLength', 'self_max_length'),
                     ('cachedTokens', "'cached_tokens'"), ('emptyRecords', "'empty_records'")],
         locals={'self_index': D('Nat', L(P('Nat', 'Nat'))), 'self_size_cache': L('Nat'),
                 'self_min_length': 'Int', 'self_max_length': 'Int',
                 'cached_tokens': L(L('Nat')), 'empty_records': L('Nat'), 'row_id': 'Nat',
                 'index_attr_tokens': L('Nat'), 'num_tokens': 'Nat', 'prefix_length': 'Int',
                 'pos': 'Nat', 'token': 'Nat'}),
]


# ------------------------------------------------------------------------------------------------
# helpers on the Python AST
# ------------------------------------------------------------------------------------------------
def names_in(node):
    return [n for n in ast.walk(node) if isinstance(n, ast.Name)]


def src_of(node):
    return ast.unparse(node)


def assigned_names(stmts):
    """names bound by plain/aug assignment or as for-targets anywhere inside `stmts`"""
    out = []
    for s in stmts:
        for n in ast.walk(s):
            if isinstance(n, (ast.Assign,)):
                for t in n.targets:
                    out += [x.id for x in ast.walk(t) if isinstance(x, ast.Name) and isinstance(x.ctx, ast.Store)]
            elif isinstance(n, ast.AugAssign):
                out += [x.id for x in ast.walk(n.target) if isinstance(x, ast.Name)]
            elif isinstance(n, ast.For):
                out += [x.id for x in ast.walk(n.target) if isinstance(x, ast.Name)]
    return out


class Tr:
    def __init__(self, spec, fname, module, func):
        self.spec = spec
        self.fname = fname
        self.module = module
        self.func = func
        self.params = dict(spec['params'])
        self.locals = dict(spec['locals'])
        self.ret = spec['ret']
        self.env = {}                 # names in scope -> type
        self.narrowed = set()         # Option-typed names known to be not None here
        self.loop_vars = []           # stack of sets
        self.out = []
        self.notes = []               # idioms that needed a side condition (reported in the summary)
        self.cache = None             # eliminated cache: dict(name, var, lo, hi, value)
        self.imports = self.collect_imports(module)
        self.view_used = False
        self.mutated = set()
        self.multi_assigned = set()
        self.declared = set()

    # ---- errors ---------------------------------------------------------------------------------
    def fail(self, node, why):
        raise Untranslatable('%s:%s:%s: %s: `%s`' % (
            self.fname, getattr(node, 'lineno', '?'), getattr(node, 'col_offset', '?'), why,
            src_of(node)[:120] if isinstance(node, ast.AST) else node))

    # ---- module level facts ---------------------------------------------------------------------
    @staticmethod
    def collect_imports(module):
        imp = {}
        for s in module.body:
            if isinstance(s, ast.ImportFrom):
                for a in s.names:
                    imp[a.asname or a.name] = (s.module, a.name)
            elif isinstance(s, ast.Import):
                for a in s.names:
                    imp[a.asname or a.name] = (a.name, None)
        # a later module-level rebinding of an imported name would invalidate the idiom
        for s in module.body:
            if isinstance(s, (ast.FunctionDef, ast.ClassDef)) and s.name in imp:
                imp[s.name] = ('<rebound>', None)
            if isinstance(s, ast.Assign):
                for t in s.targets:
                    for n in names_in(t):
                        if n.id in imp:
                            imp[n.id] = ('<rebound>', None)
        return imp

    def need_import(self, node, name):
        if self.imports.get(name) != REQUIRED_IMPORTS[name]:
            self.fail(node, 'idiom needs `from %s import %s` (found %r)' % (
                REQUIRED_IMPORTS[name][0], REQUIRED_IMPORTS[name][1], self.imports.get(name)))

    def need_builtin(self, node, name):
        if name in self.imports or name in self.params or name in self.locals:
            self.fail(node, 'builtin `%s` is shadowed' % name)
        for s in self.module.body:
            if isinstance(s, (ast.FunctionDef, ast.ClassDef)) and s.name == name:
                self.fail(node, 'builtin `%s` is shadowed' % name)

    # ---- type utilities -------------------------------------------------------------------------
    def coerce(self, node, code, have, want):
        if have == want:
            return code
        if have == 'Nat' and want == 'Int':
            if code.isdigit():
                return '(%s : Int)' % code
            return '(Int.ofNat %s)' % code
        if isinstance(want, tuple) and want[0] == 'Option' and want[1] == have:
            return '(some %s)' % code
        if have == 'EmptyList' and (want == 'Row' or (isinstance(want, tuple) and want[0] in ('List',))):
            return '[]'
        if have == 'EmptyDict' and isinstance(want, tuple) and want[0] == 'Dict':
            return '[]'
        if have == L('Cell') and want == 'Row':
            return code
        self.fail(node, 'type mismatch: have %s, want %s' % (self.show(have), self.show(want)))

    @staticmethod
    def show(t):
        return t if isinstance(t, str) and t in ('EmptyList', 'EmptyDict', 'Cache', 'None') else lean_type(t)

    def numeric_join(self, node, a, b):
        (ca, ta), (cb, tb) = a, b
        for t in (ta, tb):
            if t not in ('Nat', 'Int'):
                self.fail(node, 'integer operand expected, have %s' % self.show(t))
        if ta == tb:
            return ca, cb, ta
        return self.coerce(node, ca, ta, 'Int'), self.coerce(node, cb, tb, 'Int'), 'Int'

    # ---- expressions: returns (lean code, type) -------------------------------------------------
    def var(self, e):
        name = e.id
        if name == 'maxsize' and name not in self.env and name not in self.locals:
            self.need_import(e, 'maxsize')
            return 'maxsize', 'Int'          # SSJ.maxsize = sys.maxsize
        if name not in self.env:
            self.fail(e, 'variable not in scope / not in the type table')
        t = self.env[name]
        if t == 'Cache':
            self.fail(e, 'cache variable used outside the recognised cache idiom')
        if name in self.narrowed:
            return '(%s.getD %s)' % (name, default_of(t[1])), t[1]
        return name, t

    def no_alias(self, e):
        """a mutated list/dict variable must never be aliased (the translation is functional)"""
        if isinstance(e, ast.Name) and e.id in self.mutated:
            self.fail(e, 'aliasing of a mutated list/dict variable')

    def expr(self, e):
        if isinstance(e, ast.Constant):
            v = e.value
            if isinstance(v, bool):
                return ('true' if v else 'false'), 'Bool'
            if isinstance(v, int):
                return str(v), 'Nat'
            if isinstance(v, str):
                return json.dumps(v, ensure_ascii=False), 'String'
            self.fail(e, 'constant outside the table')
        if isinstance(e, ast.UnaryOp) and isinstance(e.op, ast.USub) and isinstance(e.operand, ast.Constant) \
                and isinstance(e.operand.value, int) and not isinstance(e.operand.value, bool):
            return '(-%d)' % e.operand.value, 'Int'
        if isinstance(e, ast.Name):
            return self.var(e)
        if isinstance(e, ast.List):
            if not e.elts:
                return '[]', 'EmptyList'
            parts = []
            for x in e.elts:
                self.no_alias(x)
                parts.append(self.expr(x))
            t0 = parts[0][1]
            for (c, t), x in zip(parts, e.elts):
                if t != t0:
                    self.fail(x, 'heterogeneous list literal')
            return '[%s]' % ', '.join(c for c, _ in parts), L(t0)
        if isinstance(e, ast.Dict):
            if e.keys:
                self.fail(e, 'non-empty dict literal')
            return '[]', 'EmptyDict'
        if isinstance(e, ast.Tuple):
            if len(e.elts) != 2:
                self.fail(e, 'only pairs are in the table')
            for x in e.elts:
                self.no_alias(x)
            (a, ta), (b, tb) = self.expr(e.elts[0]), self.expr(e.elts[1])
            return '(%s, %s)' % (a, b), P(ta, tb)
        if isinstance(e, ast.Attribute):
            return self.attribute(e)
        if isinstance(e, ast.Subscript):
            return self.subscript(e)
        if isinstance(e, ast.BinOp):
            return self.binop(e)
        if isinstance(e, ast.Compare):
            return self.compare(e)
        if isinstance(e, ast.BoolOp):
            parts = [self.expr(v) for v in e.values]
            for (c, t), v in zip(parts, e.values):
                if t != 'Bool':
                    self.fail(v, '`and`/`or` operand must be a Bool expression, have %s' % self.show(t))
            op = ' && ' if isinstance(e.op, ast.And) else ' || '
            return '(%s)' % op.join(c for c, _ in parts), 'Bool'
        if isinstance(e, ast.UnaryOp) and isinstance(e.op, ast.Not):
            c, narrow = self.truthy(e.operand)
            if c.startswith('(!') and c.endswith('.isEmpty)'):
                return c[2:-1], 'Bool'          # not (not xs.isEmpty)
            return '(!%s)' % c, 'Bool'
        if isinstance(e, ast.Call):
            return self.call(e)
        self.fail(e, 'expression outside the table')

    def attribute(self, e):
        if isinstance(e.value, ast.Name) and e.value.id in self.env:
            rt = self.env[e.value.id]
            key = (rt, e.attr)
            if key in ATTRS:
                proj, t = ATTRS[key]
                return '%s.%s' % (e.value.id, proj), t
        self.fail(e, 'attribute outside the table')

    def subscript(self, e):
        # cache read
        if isinstance(e.value, ast.Name) and self.cache and e.value.id == self.cache['name']:
            return self.cache_read(e)
        sl = e.slice
        if isinstance(sl, ast.Slice):
            if sl.step is not None or sl.upper is None or not (
                    isinstance(sl.lower, ast.Constant) and sl.lower.value == 0 and not isinstance(sl.lower.value, bool)):
                self.fail(e, 'only slices `xs[0:k]` are in the table')
            c, t = self.expr(e.value)
            if not (isinstance(t, tuple) and t[0] == 'List'):
                self.fail(e, 'slice of a non-list')
            k, tk = self.expr(sl.upper)
            if tk not in ('Nat', 'Int'):
                self.fail(sl.upper, 'slice bound must be an integer')
            return '(pyTake %s %s)' % (c, self.coerce(sl.upper, k, tk, 'Int')), t
        c, t = self.expr(e.value)
        if isinstance(t, tuple) and t[0] == 'Prod':
            if isinstance(sl, ast.Constant) and sl.value in (0, 1) and not isinstance(sl.value, bool):
                return '%s.%d' % (c, sl.value + 1), t[sl.value + 1]
            self.fail(e, 'tuple index must be the constant 0 or 1')
        i, ti = self.expr(sl)
        if ti != 'Nat':
            self.fail(sl, 'list index must have type Nat, have %s' % self.show(ti))
        if t == 'Row':
            return '(Row.cell %s %s)' % (c, i), 'Cell'
        if t == L('Nat'):
            return '(%s.getD %s 0)' % (c, i), 'Nat'
        self.fail(e, 'indexing a value of type %s is outside the table' % self.show(t))

    def binop(self, e):
        a, b = self.expr(e.left), self.expr(e.right)
        if isinstance(e.op, ast.Add):
            if a[1] == 'String' and b[1] == 'String':
                return '(%s ++ %s)' % (a[0], b[0]), 'String'
            ca, cb, t = self.numeric_join(e, a, b)
            return '(%s + %s)' % (ca, cb), t
        if isinstance(e.op, ast.Sub):
            for (c, t) in (a, b):
                if t not in ('Nat', 'Int'):
                    self.fail(e, 'integer operand expected')
            return '(%s - %s)' % (self.coerce(e, a[0], a[1], 'Int'), self.coerce(e, b[0], b[1], 'Int')), 'Int'
        self.fail(e, 'binary operator outside the table')

    def compare(self, e):
        operands = [e.left] + list(e.comparators)
        # `x is None` / `x is not None`
        if len(e.ops) == 1 and isinstance(e.ops[0], (ast.Is, ast.IsNot)):
            if not (isinstance(e.comparators[0], ast.Constant) and e.comparators[0].value is None):
                self.fail(e, '`is` is only in the table against None')
            c, t = self.expr_raw_option(e.left)
            return ('%s.isNone' if isinstance(e.ops[0], ast.Is) else '%s.isSome') % c, 'Bool'
        vals = [self.expr(x) for x in operands]
        parts = []
        for i, op in enumerate(e.ops):
            a, b = vals[i], vals[i + 1]
            if isinstance(op, (ast.Eq, ast.NotEq)):
                if a[1] in ('Nat', 'Int') and b[1] in ('Nat', 'Int'):
                    ca, cb, _ = self.numeric_join(e, a, b)
                elif a[1] == b[1] and a[1] in ('String', 'Bool'):
                    ca, cb = a[0], b[0]
                else:
                    self.fail(e, '==/!= on types %s, %s is outside the table' % (self.show(a[1]), self.show(b[1])))
                parts.append('(%s %s %s)' % (ca, '==' if isinstance(op, ast.Eq) else '!=', cb))
            elif isinstance(op, (ast.Lt, ast.LtE, ast.Gt, ast.GtE)):
                ca, cb, _ = self.numeric_join(e, a, b)
                sym = {ast.Lt: '<', ast.LtE: '≤', ast.Gt: '>', ast.GtE: '≥'}[type(op)]
                parts.append('decide (%s %s %s)' % (ca, sym, cb))
            else:
                self.fail(e, 'comparison operator outside the table')
        if len(parts) == 1:
            return '(%s)' % parts[0] if parts[0].startswith('decide') else parts[0], 'Bool'
        return '(%s)' % ' && '.join(parts), 'Bool'

    def expr_raw_option(self, e):
        """an expression whose Option-ness is being inspected (`is None`): no narrowing applied"""
        if isinstance(e, ast.Name):
            if e.id not in self.env:
                self.fail(e, 'variable not in scope / not in the type table')
            t = self.env[e.id]
            if not (isinstance(t, tuple) and t[0] == 'Option'):
                self.fail(e, '`is None` test on a non-Option variable (%s)' % self.show(t))
            return e.id, t
        c, t = self.expr(e)
        if not (isinstance(t, tuple) and t[0] == 'Option'):
            self.fail(e, '`is None` test on a non-Option expression (%s)' % self.show(t))
        return '(%s)' % c, t

    def truthy(self, e):
        """condition position: returns (Bool code, name narrowed to not-None when the code is true)"""
        if isinstance(e, ast.Name) and e.id in self.env and e.id not in self.narrowed:
            t = self.env[e.id]
            if isinstance(t, tuple) and t[0] == 'Option' and isinstance(t[1], tuple) and t[1][0] == 'List':
                # None and [] are both falsy
                return '(!(%s.getD []).isEmpty)' % e.id, e.id
        if isinstance(e, ast.Compare) and len(e.ops) == 1 and isinstance(e.ops[0], ast.IsNot) \
                and isinstance(e.left, ast.Name):
            c, _ = self.expr(e)
            return c, e.left.id
        c, t = self.expr(e)
        if t == 'Bool':
            return c, None
        if t == 'Row' or (isinstance(t, tuple) and t[0] in ('List', 'Dict')):
            return '(!%s.isEmpty)' % c, None
        self.fail(e, 'truth value of type %s is outside the table' % self.show(t))

    def call(self, e):
        if e.keywords and not (isinstance(e.func, ast.Name) and e.func.id == 'sorted'):
            self.fail(e, 'keyword arguments outside the table')
        f = e.func
        if isinstance(f, ast.Name):
            n = f.id
            if n == 'len' and len(e.args) == 1:
                self.need_builtin(e, 'len')
                c, t = self.expr(e.args[0])
                if t == 'Row' or (isinstance(t, tuple) and t[0] in ('List', 'Dict')):
                    return '%s.length' % c, 'Nat'
                self.fail(e, 'len of %s' % self.show(t))
            if n in ('min', 'max') and len(e.args) == 2:
                self.need_builtin(e, n)
                ca, cb, t = self.numeric_join(e, self.expr(e.args[0]), self.expr(e.args[1]))
                return '(%s %s %s)' % (n, ca, cb), t
            if n == 'sorted':
                return self.sorted_call(e)
            if n in CFG_CALLS:
                return self.cfg_call(e)
            self.fail(e, 'call outside the table')
        if isinstance(f, ast.Attribute):
            m = f.attr
            # record methods (probe)
            if isinstance(f.value, ast.Name) and f.value.id in self.env and (self.env[f.value.id], m) in METHODS:
                rt = self.env[f.value.id]
                _, _, _, templ, argts, rest = METHODS[(rt, m)]
                if len(e.args) != len(argts):
                    self.fail(e, 'wrong number of arguments')
                args = []
                for a, want in zip(e.args, argts):
                    c, t = self.expr(a)
                    args.append(self.coerce(a, c, t, want))
                return '(%s)' % templ.format(*args, recv=f.value.id), rest
            recv, rt = self.expr(f.value)
            if m == 'get' and isinstance(rt, tuple) and rt[0] == 'Dict' and len(e.args) in (1, 2):
                k, tk = self.expr(e.args[0])
                k = self.coerce(e.args[0], k, tk, rt[1])
                if len(e.args) == 1:
                    return '(Dict.get? %s %s)' % (recv, k), O(rt[2])
                d, td = self.expr(e.args[1])
                d = self.coerce(e.args[1], d, td, rt[2])
                if is_mutable_type(rt[2]):
                    self.fail(e, '`.get(k, default)` with a mutable default/value is outside the table')
                return '(Dict.getD %s %s %s)' % (recv, k, d), rt[2]
            if m == 'index' and isinstance(rt, tuple) and rt[0] == 'List' and len(e.args) == 1:
                a, ta = self.expr(e.args[0])
                a = self.coerce(e.args[0], a, ta, rt[1])
                self.notes.append('%s:%d list.index ↦ List.idxOf (Python raises ValueError when absent; '
                                  'Lean returns the length)' % (self.fname, e.lineno))
                return '(List.idxOf %s %s)' % (a, recv), 'Nat'
        self.fail(e, 'call outside the table')

    def sorted_call(self, e):
        self.need_builtin(e, 'sorted')
        if len(e.args) != 1 or len(e.keywords) != 1 or e.keywords[0].arg != 'key':
            self.fail(e, 'only `sorted(xs, key=itemgetter(i))` is in the table')
        kv = e.keywords[0].value
        if not (isinstance(kv, ast.Call) and isinstance(kv.func, ast.Name) and kv.func.id == 'itemgetter'
                and len(kv.args) == 1 and not kv.keywords and isinstance(kv.args[0], ast.Constant)
                and kv.args[0].value in (0, 1) and not isinstance(kv.args[0].value, bool)):
            self.fail(e, 'sort key must be itemgetter(0) or itemgetter(1)')
        self.need_import(kv, 'itemgetter')
        i = kv.args[0].value
        arg = e.args[0]
        # sorted(list(d.items()), ...)
        if isinstance(arg, ast.Call) and isinstance(arg.func, ast.Name) and arg.func.id == 'list' \
                and len(arg.args) == 1 and not arg.keywords:
            self.need_builtin(arg, 'list')
            inner = arg.args[0]
            if not (isinstance(inner, ast.Call) and isinstance(inner.func, ast.Attribute)
                    and inner.func.attr == 'items' and not inner.args and not inner.keywords):
                self.fail(arg, 'only `list(d.items())` is in the table')
            c, t = self.expr(inner.func.value)
            if not (isinstance(t, tuple) and t[0] == 'Dict'):
                self.fail(inner, '`.items()` of a non-dict')
            lt = L(P(t[1], t[2]))
        else:
            c, t = self.expr(arg)
            if not (isinstance(t, tuple) and t[0] == 'List' and isinstance(t[1], tuple) and t[1][0] == 'Prod'):
                self.fail(arg, 'sorted(…, key=itemgetter) needs a list of pairs')
            lt = t
        kt = lt[1][1 + i]
        if kt not in ('Nat', 'Int', 'String'):
            self.fail(e, 'sort key of type %s is outside the table' % self.show(kt))
        return '(List.mergeSort %s (fun a b => decide (a.%d ≤ b.%d)))' % (c, i + 1, i + 1), lt

    def cfg_call(self, e):
        n = e.func.id
        self.need_import(e, n)
        nnat, trailing, field, rest = CFG_CALLS[n]
        cfg = self.spec.get('cfg')
        if cfg is None:
            self.fail(e, '`%s`: the type table gives this function no filter configuration' % n)
        if len(e.args) != nnat + len(trailing) or e.keywords:
            self.fail(e, 'wrong number of arguments for `%s`' % n)
        for a, want in zip(e.args[nnat:], trailing):
            if src_of(a) != want:
                self.fail(a, 'argument of `%s` must be `%s`' % (n, want))
        args = []
        for a in e.args[:nnat]:
            c, t = self.expr(a)
            if t != 'Nat':
                self.fail(a, 'token-count argument of `%s` must have type Nat, have %s' % (n, self.show(t)))
            args.append(c)
        return '(%s.%s %s)' % (cfg, field, ' '.join(args)), rest

    # ---- the cache idiom -------------------------------------------------------------------------
    def detect_cache(self, body):
        """`C = {}` ; `for S in xrange(LO, HI + 1): C[S] = VALUE(S)` ; reads `C[K]` only under the
        guard `LO <= K <= HI`.  Returns the body without the two filling statements."""
        caches = [n for n, t in self.locals.items() if t == 'Cache']
        if not caches:
            return body
        if len(caches) != 1:
            self.fail(self.func, 'at most one cache per function')
        C = caches[0]
        idx = [i for i, s in enumerate(body) if isinstance(s, ast.Assign) and len(s.targets) == 1
               and isinstance(s.targets[0], ast.Name) and s.targets[0].id == C]
        if len(idx) != 1:
            self.fail(self.func, 'cache `%s` must be initialised exactly once at the top level of the function' % C)
        i = idx[0]
        init = body[i]
        if not (isinstance(init.value, ast.Dict) and not init.value.keys):
            self.fail(init, 'cache must be initialised with `{}`')
        if i + 1 >= len(body) or not isinstance(body[i + 1], ast.For):
            self.fail(init, 'cache initialisation must be immediately followed by its filling loop')
        loop = body[i + 1]
        it = loop.iter
        if loop.orelse or not (isinstance(loop.target, ast.Name) and isinstance(it, ast.Call)
                               and isinstance(it.func, ast.Name) and it.func.id == 'xrange'
                               and len(it.args) == 2 and not it.keywords):
            self.fail(loop, 'cache filling loop must be `for S in xrange(LO, HI + 1)`')
        self.need_import(it, 'xrange')
        S = loop.target.id
        lo, hi1 = it.args
        if not (isinstance(lo, ast.Name) and isinstance(hi1, ast.BinOp) and isinstance(hi1.op, ast.Add)
                and isinstance(hi1.left, ast.Name) and isinstance(hi1.right, ast.Constant)
                and hi1.right.value == 1 and not isinstance(hi1.right.value, bool)):
            self.fail(it, 'cache range must be `xrange(LO, HI + 1)` with variables LO, HI')
        LO, HI = lo.id, hi1.left.id
        if not (len(loop.body) == 1 and isinstance(loop.body[0], ast.Assign)
                and len(loop.body[0].targets) == 1
                and isinstance(loop.body[0].targets[0], ast.Subscript)
                and isinstance(loop.body[0].targets[0].value, ast.Name)
                and loop.body[0].targets[0].value.id == C
                and isinstance(loop.body[0].targets[0].slice, ast.Name)
                and loop.body[0].targets[0].slice.id == S):
            self.fail(loop, 'cache filling loop body must be exactly `%s[%s] = VALUE`' % (C, S))
        value = loop.body[0].value
        if not (isinstance(value, ast.Call) and isinstance(value.func, ast.Name) and value.func.id in CFG_CALLS):
            self.fail(value, 'cached value must be a call of a filter_utils function')
        all_assigned = assigned_names(self.func.body)
        # the loop variable is used nowhere else
        rest = body[:i] + body[i + 2:]
        for s in rest:
            for n in names_in(s):
                if n.id == S:
                    self.fail(n, 'cache loop variable `%s` used outside the filling loop' % S)
        # everything the value depends on (besides S) is bound exactly once, before the loop
        before = assigned_names(body[:i])
        for n in names_in(value):
            if n.id in (S, 'self') or n.id in CFG_CALLS:
                continue
            if n.id == C:
                self.fail(n, 'cached value mentions the cache')
            if n.id in self.params:
                if n.id in all_assigned:
                    self.fail(n, 'parameter `%s` is reassigned' % n.id)
                continue
            if all_assigned.count(n.id) != 1 or before.count(n.id) != 1:
                self.fail(n, 'cached value depends on `%s`, which is not bound exactly once before the loop' % n.id)
        for b in (LO, HI):
            if b in self.params:
                if b in all_assigned:
                    self.fail(loop, 'cache bound `%s` is reassigned' % b)
            elif all_assigned.count(b) != 1 or before.count(b) != 1:
                self.fail(loop, 'cache bound `%s` is not bound exactly once before the loop' % b)
        # every other occurrence of C is a guarded read
        self.cache = dict(name=C, var=S, lo=LO, hi=HI, value=value, guards=[], reads=0,
                          all_assigned=all_assigned)
        for s in rest:
            self.check_cache_uses(s, [])
        if self.cache['reads'] == 0:
            self.fail(init, 'cache `%s` is never read' % C)
        self.notes.append('%s:%d cache `%s` filled over xrange(%s, %s + 1) and read only under `%s <= K <= %s`: '
                          'reads translated as direct calls' % (self.fname, init.lineno, C, LO, HI, LO, HI))
        return rest

    def guard_key(self, test):
        """`LO <= K <= HI` -> K"""
        c = self.cache
        if isinstance(test, ast.Compare) and len(test.ops) == 2 and all(isinstance(o, ast.LtE) for o in test.ops) \
                and isinstance(test.left, ast.Name) and test.left.id == c['lo'] \
                and isinstance(test.comparators[0], ast.Name) \
                and isinstance(test.comparators[1], ast.Name) and test.comparators[1].id == c['hi']:
            return test.comparators[0].id
        return None

    def check_cache_uses(self, node, guards):
        """walk `node`; `guards` = list of (K, If node) for enclosing `if LO <= K <= HI:` bodies"""
        c = self.cache
        if isinstance(node, ast.If):
            self.check_cache_uses(node.test, guards)
            k = self.guard_key(node.test)
            g2 = guards + [(k, node)] if k is not None else guards
            for s in node.body:
                self.check_cache_uses(s, g2)
            for s in node.orelse:
                self.check_cache_uses(s, guards)
            return
        if isinstance(node, ast.Subscript) and isinstance(node.value, ast.Name) and node.value.id == c['name']:
            if not isinstance(node.ctx, ast.Load):
                self.fail(node, 'cache is written outside its filling loop')
            if not isinstance(node.slice, ast.Name):
                self.fail(node, 'cache key must be a variable')
            K = node.slice.id
            hit = [g for g in guards if g[0] == K]
            if not hit:
                self.fail(node, 'cache read `%s[%s]` is not under the guard `%s <= %s <= %s`' % (
                    c['name'], K, c['lo'], K, c['hi']))
            # K is bound exactly once in the function, and not inside the guarded body
            if K in self.params:
                if K in c['all_assigned']:
                    self.fail(node, 'cache key `%s` is reassigned' % K)
            else:
                if c['all_assigned'].count(K) != 1:
                    self.fail(node, 'cache key `%s` is not bound exactly once' % K)
                for _, ifnode in hit:
                    if K in assigned_names(ifnode.body):
                        self.fail(node, 'cache key `%s` is rebound inside the guarded block' % K)
            c['reads'] += 1
            return
        if isinstance(node, ast.Name) and node.id == c['name']:
            self.fail(node, 'cache variable used outside the recognised cache idiom')
        for ch in ast.iter_child_nodes(node):
            self.check_cache_uses(ch, guards)

    def cache_read(self, e):
        c = self.cache
        K = e.slice.id
        # VALUE[S := K]
        class Sub(ast.NodeTransformer):
            def visit_Name(self_, n):
                if n.id == c['var']:
                    return ast.copy_location(ast.Name(id=K, ctx=ast.Load()), e)
                return n
        import copy
        v = Sub().visit(copy.deepcopy(c['value']))
        ast.fix_missing_locations(v)
        for n in ast.walk(v):
            if not hasattr(n, 'lineno'):
                n.lineno, n.col_offset = e.lineno, e.col_offset
        return self.expr(v)

    # ---- statements ------------------------------------------------------------------------------
    def emit(self, ind, line):
        self.out.append('  ' * ind + line)

    def analyse(self, body):
        """which variables are mutated in place / assigned more than once; checks on parameters"""
        assigned = assigned_names(body)
        for n in assigned:
            if n in self.params:
                self.fail(self.func, 'assignment to parameter `%s` is outside the table' % n)
        for node in ast.walk(self.func):
            if isinstance(node, ast.Expr) and isinstance(node.value, ast.Call) \
                    and isinstance(node.value.func, ast.Attribute) and node.value.func.attr in ('append', 'sort') \
                    and isinstance(node.value.func.value, ast.Name):
                self.mutated.add(node.value.func.value.id)
            if isinstance(node, ast.Expr) and isinstance(node.value, ast.Call) \
                    and isinstance(node.value.func, ast.Attribute) and node.value.func.attr == 'append' \
                    and isinstance(node.value.func.value, ast.Call) \
                    and isinstance(node.value.func.value.func, ast.Attribute) \
                    and isinstance(node.value.func.value.func.value, ast.Name):
                self.mutated.add(node.value.func.value.func.value.id)
            if isinstance(node, (ast.Assign, ast.AugAssign)):
                tg = node.targets if isinstance(node, ast.Assign) else [node.target]
                for t in tg:
                    if isinstance(t, ast.Subscript) and isinstance(t.value, ast.Name):
                        self.mutated.add(t.value.id)
        for n in self.mutated:
            if n in self.params:
                self.fail(self.func, 'in-place mutation of parameter `%s` is outside the table' % n)
        # assigned in a loop or several times => `let mut`
        def walk(stmts, in_loop):
            for s in stmts:
                if isinstance(s, (ast.Assign, ast.AugAssign)):
                    tg = s.targets if isinstance(s, ast.Assign) else [s.target]
                    for t in tg:
                        if isinstance(t, ast.Name):
                            if isinstance(s, ast.AugAssign) or assigned.count(t.id) > 1:
                                self.multi_assigned.add(t.id)
                elif isinstance(s, ast.For):
                    walk(s.body, True)
                elif isinstance(s, ast.If):
                    walk(s.body, in_loop)
                    walk(s.orelse, in_loop)
        walk(body, False)

    def occurs(self, stmt, name):
        return any(n.id == name for n in names_in(stmt))

    def hoist_before(self, stmts, k, ind):
        """declare here every local whose first occurrence in this block is statement k, unless
        statement k is itself the plain assignment that declares it"""
        s = stmts[k]
        for name in sorted(self.locals):
            t = self.locals[name]
            if t == 'Cache' or name in self.declared or name in self.env:
                continue
            if not self.occurs(s, name):
                continue
            # loop targets are bound by their loop
            if self.is_only_loop_target(name):
                continue
            if isinstance(s, ast.Assign) and len(s.targets) == 1 and isinstance(s.targets[0], ast.Name) \
                    and s.targets[0].id == name:
                continue        # declared by the statement itself
            # does the variable occur after this statement in this block, or is it needed across
            # iterations/branches?  Either way it has to be declared here.
            later = any(self.occurs(x, name) for x in stmts[k + 1:])
            if not later and not self.assigned_in_branches_and_read(s, name):
                # purely local to statement k: it will be declared further inside
                continue
            definite = self.definitely_assigned(stmts[k:], name, False)[0]
            if self.loop_vars and not definite:
                # declared inside a loop body: a value could be carried from one iteration to the next
                self.fail(s, 'local `%s` is not definitely assigned before its reads within the loop body '
                             '(its value may be carried between iterations)' % name)
            if not definite:
                self.check_first_occurrence_is_store(name)
                self.notes.append('%s: local `%s` is first bound inside a nested block and is not definitely '
                                  'assigned before its reads; declared before that block with the default '
                                  'value %s (Python would raise UnboundLocalError on a read before '
                                  'assignment)' % (self.fname, name, default_of(t)))
            self.emit(ind, 'let mut %s : %s := %s  -- hoisted: first bound inside the next statement' % (
                name, lean_type(t), default_of(t)))
            self.env[name] = t
            self.declared.add(name)

    def definitely_assigned(self, stmts, name, assigned):
        """definite-assignment analysis of `name` over a statement list, starting with the given
        state.  Returns (every read happens after an assignment, assigned at the end).  A block that
        ends in continue/return counts as assigned at its end (control does not fall through)."""
        ok = True

        def reads(node):
            return any(n.id == name and isinstance(n.ctx, ast.Load) for n in names_in(node))

        for s in stmts:
            if isinstance(s, ast.Assign):
                if reads(s.value) and not assigned:
                    ok = False
                for t in s.targets:
                    if isinstance(t, ast.Name):
                        if t.id == name:
                            assigned = True
                    elif any(n.id == name for n in names_in(t)) and not assigned:
                        ok = False
            elif isinstance(s, ast.AugAssign):
                if any(n.id == name for n in names_in(s)) and not assigned:
                    ok = False
            elif isinstance(s, ast.If):
                if reads(s.test) and not assigned:
                    ok = False
                o1, a1 = self.definitely_assigned(s.body, name, assigned)
                o2, a2 = self.definitely_assigned(s.orelse, name, assigned)
                ok = ok and o1 and o2
                assigned = a1 and a2
            elif isinstance(s, ast.For):
                if reads(s.iter) and not assigned:
                    ok = False
                o1, _ = self.definitely_assigned(s.body, name, assigned)
                ok = ok and o1
            elif isinstance(s, (ast.Return, ast.Continue)):
                if isinstance(s, ast.Return) and s.value is not None and reads(s.value) and not assigned:
                    ok = False
                assigned = True
            else:
                if any(n.id == name for n in names_in(s)) and not assigned:
                    ok = False
        return ok, assigned

    def check_first_occurrence_is_store(self, name):
        """necessary condition for a hoisted variable not to be read unbound: in source order its first
        occurrence is the target of a plain assignment"""
        aug = set()
        for node in ast.walk(self.func):
            if isinstance(node, ast.AugAssign):
                aug |= {id(n) for n in names_in(node.target)}
        occ = sorted((n for n in names_in(self.func) if n.id == name), key=lambda n: (n.lineno, n.col_offset))
        first = occ[0]
        if not isinstance(first.ctx, ast.Store) or id(first) in aug:
            self.fail(first, 'local `%s` is read before any assignment' % name)
        # the value assigned must not mention the variable itself (`x = x + 1` evaluates x first)
        for node in ast.walk(self.func):
            if isinstance(node, ast.Assign) and any(t is first for t in node.targets):
                if any(n.id == name for n in names_in(node.value)):
                    self.fail(first, 'local `%s` is read before any assignment' % name)

    def is_only_loop_target(self, name):
        tg = 0
        other = 0
        for node in ast.walk(self.func):
            if isinstance(node, ast.For):
                if any(n.id == name for n in names_in(node.target)):
                    tg += 1
            if isinstance(node, (ast.Assign, ast.AugAssign)):
                ts = node.targets if isinstance(node, ast.Assign) else [node.target]
                for t in ts:
                    if isinstance(t, ast.Name) and t.id == name:
                        other += 1
        rv = self.spec.get('row_view')
        if rv and name == rv['view']:
            return True
        if tg and other:
            self.fail(self.func, '`%s` is both a loop variable and assigned' % name)
        return tg > 0

    def assigned_in_branches_and_read(self, s, name):
        """inside the compound statement `s`, is `name` needed at the level of `s` itself (assigned in
        one sub-block and used in another)?  Conservative: true iff it occurs in more than one direct
        sub-block of s, or s is a loop whose body assigns it not as the first plain statement-level
        declaration."""
        if isinstance(s, ast.If):
            blocks = [s.body, s.orelse]
            cnt = sum(1 for b in blocks if any(self.occurs(x, name) for x in b))
            return cnt > 1 or self.occurs(s.test, name)
        if isinstance(s, ast.For):
            return self.occurs(s.iter, name)
        return False

    def block(self, stmts, ind):
        saved_env = dict(self.env)
        saved_narrow = set(self.narrowed)
        saved_declared = set(self.declared)
        for k, s in enumerate(stmts):
            self.hoist_before(stmts, k, ind)
            self.stmt(s, ind, stmts, k)
        # leave scope: names declared in this block disappear
        self.env = {n: t for n, t in self.env.items() if n in saved_env}
        self.declared = {n for n in self.declared if n in saved_declared}
        self.narrowed = {n for n in saved_narrow if n in self.narrowed}

    def stmt(self, s, ind, stmts, k):
        if isinstance(s, ast.Expr) and isinstance(s.value, ast.Constant) and isinstance(s.value.value, str):
            return      # docstring
        if isinstance(s, ast.Assign):
            return self.assign(s, ind)
        if isinstance(s, ast.AugAssign):
            if not (isinstance(s.op, ast.Add) and isinstance(s.target, ast.Name)):
                self.fail(s, 'augmented assignment outside the table')
            name = s.target.id
            if name not in self.env or name in self.params:
                self.fail(s, 'variable not in scope / not assignable')
            t = self.env[name]
            c, tc = self.expr(s.value)
            if t not in ('Nat', 'Int'):
                self.fail(s, '`+=` on %s is outside the table' % self.show(t))
            self.emit(ind, '%s := %s + %s' % (name, name, self.coerce(s, c, tc, t)))
            return
        if isinstance(s, ast.Expr) and isinstance(s.value, ast.Call):
            return self.method_stmt(s, ind, stmts, k)
        if isinstance(s, ast.For):
            return self.for_stmt(s, ind)
        if isinstance(s, ast.If):
            return self.if_stmt(s, ind, stmts, k)
        if isinstance(s, ast.Continue):
            if not self.loop_vars:
                self.fail(s, '`continue` outside a loop')
            self.emit(ind, 'continue')
            return
        if isinstance(s, ast.Return):
            if s.value is None:
                self.fail(s, 'bare `return` is outside the table')
            if self.spec.get('ret_record'):
                return self.return_record(s, ind)
            c, t = self.expr(s.value)
            self.emit(ind, 'return %s' % self.coerce(s, c, t, self.ret))
            return
        self.fail(s, 'statement outside the table')

    def assign(self, s, ind):
        if len(s.targets) != 1:
            self.fail(s, 'multiple assignment targets')
        tg = s.targets[0]
        if isinstance(tg, ast.Name):
            name = tg.id
            if name in self.params or name not in self.locals:
                self.fail(s, 'assignment to `%s`: not a local in the type table' % name)
            t = self.locals[name]
            if t == 'Cache':
                self.fail(s, 'cache variable assigned outside the recognised cache idiom')
            self.no_alias(s.value)
            if isinstance(s.value, ast.Name) and is_mutable_type(self.env.get(s.value.id)) \
                    and name in self.mutated:
                self.fail(s, 'aliasing a list/dict that is later mutated')
            c, tc = self.expr(s.value)
            c = self.coerce(s, c, tc, t)
            self.narrowed.discard(name)
            if name in self.env:
                self.emit(ind, '%s := %s' % (name, c))
            else:
                mut = name in self.multi_assigned or name in self.mutated
                self.emit(ind, 'let %s%s : %s := %s' % ('mut ' if mut else '', name, lean_type(t), c))
                self.env[name] = t
                self.declared.add(name)
            return
        if isinstance(tg, ast.Subscript) and isinstance(tg.value, ast.Name):
            name = tg.value.id
            if self.cache and name == self.cache['name']:
                self.fail(s, 'cache is written outside its filling loop')
            if name not in self.env or name in self.params or name not in self.declared:
                self.fail(s, 'variable not in scope / not assignable')
            t = self.env[name]
            if not (isinstance(t, tuple) and t[0] == 'Dict'):
                self.fail(s, '`x[k] = v` is only in the table for dicts')
            if isinstance(tg.slice, ast.Slice):
                self.fail(s, 'slice assignment')
            k, tk = self.expr(tg.slice)
            self.no_alias(s.value)
            v, tv = self.expr(s.value)
            self.emit(ind, '%s := Dict.set %s %s %s' % (name, name, self.coerce(tg, k, tk, t[1]),
                                                        self.coerce(s, v, tv, t[2])))
            return
        self.fail(s, 'assignment target outside the table')

    def return_record(self, s, ind):
        """`return {'k1': v1, …}` of a method whose result record also collects the object state"""
        if self.loop_vars:
            self.fail(s, 'record return inside a loop')
        v = s.value
        fields = dict(RECORD_FIELDS[self.ret])
        want_keys = [src for _, src in self.spec['ret_record'] if src.startswith("'")]
        if not (isinstance(v, ast.Dict) and all(isinstance(k, ast.Constant) and isinstance(k.value, str) for k in v.keys)
                and [repr(k.value) for k in v.keys] == want_keys):
            self.fail(s, 'return value must be a dict literal with exactly the keys %s' % ', '.join(want_keys))
        by_key = {repr(k.value): x for k, x in zip(v.keys, v.values)}
        parts = []
        for field, src in self.spec['ret_record']:
            if src.startswith("'"):
                c, t = self.expr(by_key[src])
                c = self.coerce(by_key[src], c, t, fields[field])
            else:
                if src not in self.env:
                    self.fail(s, 'object state `%s` is not initialised' % src)
                c = self.coerce(s, src, self.env[src], fields[field])
            parts.append('%s := %s' % (field, c))
        self.emit(ind, 'return { %s }' % ', '.join(parts))

    def get_append(self, s, ind, stmts, k):
        """`D.get(K).append(V)` directly after `if D.get(K) is None: D[K] = []`"""
        call = s.value
        inner = call.func.value
        if not (isinstance(inner.func.value, ast.Name) and inner.func.attr == 'get' and len(inner.args) == 1
                and not inner.keywords and len(call.args) == 1 and not call.keywords):
            self.fail(s, 'method call statement outside the table')
        name = inner.func.value.id
        if name not in self.env or name in self.params or name not in self.declared:
            self.fail(s, 'variable not in scope / not mutable here (parameters and loop variables alias '
                         'their source and must not be mutated)')
        t = self.env[name]
        if not (isinstance(t, tuple) and t[0] == 'Dict' and isinstance(t[2], tuple) and t[2][0] == 'List'):
            self.fail(s, '`d.get(k).append(v)` needs a dict of lists')
        ksrc = src_of(inner.args[0])
        prev = stmts[k - 1] if k > 0 else None
        if not (isinstance(prev, ast.If) and not prev.orelse
                and src_of(prev.test) == '%s.get(%s) is None' % (name, ksrc)
                and len(prev.body) == 1 and src_of(prev.body[0]) == '%s[%s] = []' % (name, ksrc)
                and isinstance(inner.args[0], ast.Name)):
            self.fail(s, '`%s.get(%s).append(…)` must directly follow `if %s.get(%s) is None: %s[%s] = []`' % (
                name, ksrc, name, ksrc, name, ksrc))
        kc, tk = self.expr(inner.args[0])
        kc = self.coerce(inner.args[0], kc, tk, t[1])
        self.no_alias(call.args[0])
        if any(n.id == name for n in names_in(call.args[0])):
            self.fail(s, 'appended value mentions the dict itself')
        vc, tv = self.expr(call.args[0])
        vc = self.coerce(call.args[0], vc, tv, t[2][1])
        self.emit(ind, '%s := Dict.set %s %s (((Dict.get? %s %s).getD []) ++ [%s])' % (name, name, kc, name, kc, vc))

    def method_stmt(self, s, ind, stmts, k):
        call = s.value
        f = call.func
        if isinstance(f, ast.Attribute) and f.attr == 'append' and isinstance(f.value, ast.Call) \
                and isinstance(f.value.func, ast.Attribute):
            return self.get_append(s, ind, stmts, k)
        if not (isinstance(f, ast.Attribute) and isinstance(f.value, ast.Name)) or call.keywords:
            self.fail(s, 'expression statement outside the table')
        name = f.value.id
        if name not in self.env or name in self.params or name not in self.declared:
            self.fail(s, 'variable not in scope / not mutable here (parameters and loop variables alias '
                         'their source and must not be mutated)')
        t = self.env[name]
        if f.attr == 'append' and len(call.args) == 1 and (t == 'Row' or (isinstance(t, tuple) and t[0] == 'List')):
            self.no_alias(call.args[0])
            c, tc = self.expr(call.args[0])
            self.emit(ind, '%s := %s ++ [%s]' % (name, name, self.coerce(call.args[0], c, tc, elem_type(t))))
            return
        if f.attr == 'sort' and not call.args and t == L('Nat'):
            self.emit(ind, '%s := sortNat %s' % (name, name))
            return
        self.fail(s, 'method call statement outside the table')

    def for_stmt(self, s, ind):
        if s.orelse:
            self.fail(s, 'for/else')
        it = s.iter
        rv = self.spec.get('row_view')
        if rv and src_of(it) == rv['iter']:
            return self.row_view_loop(s, ind, rv)
        targets = []
        if isinstance(s.target, ast.Name):
            targets = [s.target.id]
            pat = s.target.id
        elif isinstance(s.target, ast.Tuple) and len(s.target.elts) == 2 and all(isinstance(x, ast.Name) for x in s.target.elts):
            targets = [x.id for x in s.target.elts]
            pat = '(%s, %s)' % tuple(targets)
        else:
            self.fail(s.target, 'loop target outside the table')
        for n in targets:
            if n in self.env:
                self.fail(s.target, 'loop variable `%s` shadows a variable in scope' % n)
            if n not in self.locals:
                self.fail(s.target, 'loop variable `%s` not in the type table' % n)
            if n in assigned_names(s.body):
                self.fail(s.target, 'loop variable `%s` is reassigned in the loop' % n)
        # iterable
        if isinstance(it, ast.Call) and isinstance(it.func, ast.Name) and it.func.id == 'xrange':
            self.need_import(it, 'xrange')
            if len(it.args) != 2 or it.keywords or len(targets) != 1:
                self.fail(it, 'only `xrange(a, b)` is in the table')
            (a, ta), (b, tb) = self.expr(it.args[0]), self.expr(it.args[1])
            a, b = self.coerce(it, a, ta, 'Int'), self.coerce(it, b, tb, 'Int')
            code = '(List.map (fun (i : Nat) => %s + Int.ofNat i) (List.range (%s - %s).toNat))' % (a, b, a)
            ety = 'Int'
        else:
            code, t = self.expr(it)
            ety = elem_type(t)
            if ety is None:
                self.fail(it, 'iteration over a value of type %s is outside the table' % self.show(t))
        # the iterated expression must not be mutated by the body
        for n in names_in(it):
            if n.id in assigned_names(s.body) or self.mutates(s.body, n.id):
                self.fail(it, 'loop body modifies `%s`, which the iterable depends on' % n.id)
        if len(targets) == 1:
            want = [self.locals[targets[0]]]
            if want[0] != ety:
                self.fail(s.target, 'loop variable typed %s but elements are %s' % (self.show(want[0]), self.show(ety)))
        else:
            if not (isinstance(ety, tuple) and ety[0] == 'Prod'):
                self.fail(s.target, 'tuple target over non-pairs')
            for n, te in zip(targets, ety[1:]):
                if self.locals[n] != te:
                    self.fail(s.target, 'loop variable `%s` typed %s but component is %s' % (n, self.show(self.locals[n]), self.show(te)))
        self.emit(ind, 'for %s in %s do' % (pat, code))
        saved = dict(self.env)
        for n in targets:
            self.env[n] = self.locals[n]
        self.loop_vars.append(set(targets))
        self.block(s.body, ind + 1)
        self.loop_vars.pop()
        self.env = {n: t for n, t in self.env.items() if n in saved}

    def row_view_loop(self, s, ind, rv):
        """`for row in self.table:` whose body starts with the fixed chain of assignments computing the
        view variable from the row: translated as a loop of the view variable over the view parameter"""
        if self.view_used:
            self.fail(s, 'the row view may be iterated only once')
        self.view_used = True
        if self.loop_vars:
            self.fail(s, 'row view loop must not be nested')
        if not (isinstance(s.target, ast.Name) and s.target.id == rv['var']):
            self.fail(s.target, 'row view loop variable must be `%s`' % rv['var'])
        n = len(rv['steps'])
        got = [src_of(x) for x in s.body[:n]]
        want = [src_of(ast.parse(x).body[0]) for x in rv['steps']]
        if got != want:
            self.fail(s, 'row view loop must start with exactly: %s' % ' ; '.join(want))
        rest = s.body[n:]
        view = rv['view']
        for x in rest:
            for nm in names_in(x):
                if nm.id in rv['hidden']:
                    self.fail(nm, '`%s` is used outside the row view' % nm.id)
        if assigned_names(self.func.body).count(view) != 1:
            self.fail(s, 'view variable `%s` is assigned more than once' % view)
        for nm in names_in(self.func):
            if nm.id in rv['hidden'] + [view] and not (s.lineno <= nm.lineno <= s.end_lineno):
                self.fail(nm, '`%s` is used outside the row view loop' % nm.id)
        if view in self.mutated:
            self.fail(s, 'view variable `%s` is mutated' % view)
        pt = self.params[rv['param']]
        if self.locals.get(view) != elem_type(pt):
            self.fail(s, 'view variable `%s` is not typed as an element of `%s`' % (view, rv['param']))
        self.notes.append('%s:%d rows of `%s` seen through the view `%s` = [%s for each row]' % (
            self.fname, s.lineno, rv['iter'], rv['param'], want[-1].split(' = ', 1)[1]))
        self.emit(ind, 'for %s in %s do' % (view, rv['param']))
        saved = dict(self.env)
        self.env[view] = self.locals[view]
        self.loop_vars.append({view})
        self.block(rest, ind + 1)
        self.loop_vars.pop()
        self.env = {k: t for k, t in self.env.items() if k in saved}

    def mutates(self, stmts, name):
        for s in stmts:
            for node in ast.walk(s):
                if isinstance(node, ast.Call) and isinstance(node.func, ast.Attribute) \
                        and node.func.attr in ('append', 'sort') and isinstance(node.func.value, ast.Name) \
                        and node.func.value.id == name:
                    return True
                if isinstance(node, ast.Assign):
                    for t in node.targets:
                        if isinstance(t, ast.Subscript) and isinstance(t.value, ast.Name) and t.value.id == name:
                            return True
        return False

    @staticmethod
    def ends_in_jump(stmts):
        return bool(stmts) and isinstance(stmts[-1], (ast.Return, ast.Continue))

    def if_stmt(self, s, ind, stmts, k, kw='if'):
        test = s.test
        # `if x is None: … return/continue` narrows x afterwards
        narrow_after = None
        if isinstance(test, ast.Compare) and len(test.ops) == 1 and isinstance(test.ops[0], ast.Is) \
                and isinstance(test.left, ast.Name) and not s.orelse and self.ends_in_jump(s.body):
            if test.left.id in self.params:      # parameters are never reassigned
                narrow_after = test.left.id
        c, narrow_in = self.truthy(test)
        self.emit(ind, '%s %s then' % (kw, c))
        saved = set(self.narrowed)
        if narrow_in is not None and narrow_in not in assigned_names(s.body):
            self.narrowed.add(narrow_in)
        self.block(s.body, ind + 1)
        self.narrowed = set(saved)
        if s.orelse:
            if len(s.orelse) == 1 and isinstance(s.orelse[0], ast.If):
                self.if_stmt(s.orelse[0], ind, s.orelse, 0, kw='else if')
            else:
                self.emit(ind, 'else')
                self.block(s.orelse, ind + 1)
        if narrow_after is not None and kw == 'if':
            self.narrowed.add(narrow_after)

    # ---- object state ----------------------------------------------------------------------------
    def object_state(self, body):
        """`self.X` (X in the state table) becomes the local `self_X`; state that `build` does not
        assign itself starts with the value given by `__init__`, which must be the expected one"""
        state = {attr: (local, init) for attr, local, init in self.spec['state']}

        class Rename(ast.NodeTransformer):
            def visit_Attribute(self_, n):
                if isinstance(n.value, ast.Name) and n.value.id == 'self' and n.attr in state:
                    return ast.copy_location(ast.Name(id=state[n.attr][0], ctx=n.ctx), n)
                return self_.generic_visit(n)

        for n in names_in(self.func):
            if n.id in [l for l, _ in state.values()]:
                self.fail(n, 'name clashes with the object state')
        cls = [c for c in self.module.body if isinstance(c, ast.ClassDef) and c.name == self.spec['cls']][0]
        inits = [m for m in cls.body if isinstance(m, ast.FunctionDef) and m.name == '__init__']
        if len(inits) != 1:
            self.fail(cls, '__init__ not found exactly once')
        pre = []
        for attr, local, init in self.spec['state']:
            if init is None:
                continue
            found = [st for st in ast.walk(inits[0]) if isinstance(st, (ast.Assign, ast.AugAssign))
                     and any(src_of(t) == 'self.%s' % attr for t in
                             (st.targets if isinstance(st, ast.Assign) else [st.target]))]
            top = [st for st in inits[0].body if st in found]
            if len(found) != 1 or len(top) != 1 or not isinstance(found[0], ast.Assign) \
                    or len(found[0].targets) != 1 or src_of(found[0].value) != init:
                self.fail(inits[0], '__init__ must set `self.%s = %s` exactly once, unconditionally' % (attr, init))
            a = ast.Assign(targets=[ast.Name(id=local, ctx=ast.Store())], value=found[0].value)
            ast.copy_location(a, found[0])
            ast.copy_location(a.targets[0], found[0].targets[0])
            pre.append(a)
            self.notes.append('%s:%d initial value of `self.%s` taken from __init__ (`%s`)' % (
                self.fname, found[0].lineno, attr, init))
        self.func = Rename().visit(self.func)
        ast.fix_missing_locations(self.func)
        body = [s for s in self.func.body]
        doc = [s for s in body[:1] if isinstance(s, ast.Expr) and isinstance(s.value, ast.Constant)]
        self.func.body = doc + pre + body[len(doc):]
        return list(self.func.body)

    # ---- function --------------------------------------------------------------------------------
    def function(self):
        f = self.func
        a = f.args
        if a.vararg or a.kwarg or a.kwonlyargs or a.posonlyargs:
            self.fail(f, 'parameter kinds outside the table')
        pynames = [x.arg for x in a.args]
        want = [p for p, _ in self.spec['params']]
        if 'pyparams' in self.spec:
            if pynames != self.spec['pyparams']:
                self.fail(f, 'parameter list %s differs from the type table %s' % (pynames, self.spec['pyparams']))
            pynames = want
        elif self.spec['cls'] and 'self' not in want:
            if pynames[:1] != ['self']:
                self.fail(f, 'method without self')
            for n in names_in(f):
                if n.id == 'self':
                    self.fail(n, '`self` is used but the type table gives the function no filter object')
            pynames = pynames[1:]
        if pynames != want:
            self.fail(f, 'parameter list %s differs from the type table %s' % (pynames, want))
        if f.decorator_list:
            self.fail(f, 'decorators')
        # defaults: only None (callers in the package always pass the argument explicitly)
        for arg, d in zip(a.args[len(a.args) - len(a.defaults):], a.defaults):
            if isinstance(d, ast.Constant) and d.value is None:
                continue
            if isinstance(d, ast.Constant) and isinstance(d.value, bool) and self.params.get(arg.arg) == 'Bool':
                continue
            self.fail(d, 'parameter default outside the table')
        for n in ast.walk(f):
            if isinstance(n, (ast.Global, ast.Nonlocal, ast.Lambda, ast.FunctionDef, ast.ClassDef,
                              ast.Yield, ast.YieldFrom, ast.Await, ast.While, ast.Try, ast.With,
                              ast.Delete, ast.Raise, ast.Assert, ast.Break, ast.ListComp, ast.DictComp,
                              ast.SetComp, ast.GeneratorExp, ast.IfExp, ast.NamedExpr, ast.Starred)) and n is not f:
                self.fail(n, '%s is outside the table' % type(n).__name__)
        body = list(f.body)
        if self.spec.get('state'):
            body = self.object_state(body)
        self.analyse(body)
        self.env = dict(self.params)
        body = self.detect_cache(body)
        if not body or not isinstance(body[-1], ast.Return):
            self.fail(f, 'function body must end in `return`')
        sig = ' '.join('(%s : %s)' % (p, lean_type(t)) for p, t in self.spec['params'])
        head = 'def %s %s : %s := Id.run do' % (self.spec['lean'], sig, lean_type(self.ret))
        self.block(body, 1)
        return head + '\n' + '\n'.join(self.out) + '\n'


# ------------------------------------------------------------------------------------------------
def find_function(module, cls, name, fname):
    scope = module.body
    if cls:
        cs = [s for s in module.body if isinstance(s, ast.ClassDef) and s.name == cls]
        if len(cs) != 1:
            raise Untranslatable('%s: class %s not found exactly once' % (fname, cls))
        scope = cs[0].body
    fs = [s for s in scope if isinstance(s, ast.FunctionDef) and s.name == name]
    if len(fs) != 1:
        raise Untranslatable('%s: function %s%s not found exactly once' % (fname, cls + '.' if cls else '', name))
    return fs[0]


def check_method_contract(repo, key, cache):
    rel, cls, expected, _, _, _ = METHODS[key]
    if rel not in cache:
        src = open(os.path.join(repo, rel), encoding='utf-8').read()
        cache[rel] = (src, ast.parse(src, filename=rel))
    src, mod = cache[rel]
    f = find_function(mod, cls, key[1], rel)
    body = [s for s in f.body if not (isinstance(s, ast.Expr) and isinstance(s.value, ast.Constant))]
    got = '\n'.join(ast.unparse(s) for s in body)
    args = [a.arg for a in f.args.args]
    if got != expected or args != ['self', 'token'] or f.decorator_list:
        raise Untranslatable('%s:%d: %s.%s is expected to be `def %s(self, token): %s` but is `%s`' % (
            rel, f.lineno, cls, key[1], key[1], expected, got))


def generate(repo):
    cache = {}
    pieces = []
    names = []
    notes = []
    used_files = []
    for spec in SPECS:
        rel = spec['file']
        if rel not in cache:
            src = open(os.path.join(repo, rel), encoding='utf-8').read()
            cache[rel] = (src, ast.parse(src, filename=rel))
        if rel not in used_files:
            used_files.append(rel)
        src, mod = cache[rel]
        func = find_function(mod, spec['cls'], spec['py'], rel)
        tr = Tr(spec, rel, mod, func)
        text = tr.function()
        # method contracts of the record types this function mentions
        for (rt, m) in sorted(METHODS):
            if any(t == rt for _, t in spec['params']) and any(
                    isinstance(n, ast.Attribute) and n.attr == m for n in ast.walk(func)):
                check_method_contract(repo, (rt, m), cache)
                if METHODS[(rt, m)][0] not in used_files:
                    used_files.append(METHODS[(rt, m)][0])
        where = '%s%s' % (spec['cls'] + '.' if spec['cls'] else '', spec['py'])
        pieces.append('/-- `%s` (%s:%d) ↔ `%s` -/\n%s' % (where, rel, func.lineno, spec['model'], text))
        names.append(spec['lean'])
        notes += tr.notes
    shas = [(rel, hashlib.sha256(cache[rel][0].encode('utf-8')).hexdigest()) for rel in used_files]
    header = '/- GENERATED by tools/py2lean2.py (stage 2: loop helpers, typed `do`-notation) — do not edit.\n'
    header += '   Sources:\n'
    for rel, h in shas:
        header += '     %s (sha256 %s)\n' % (rel, h)
    header += '   The equality of every function below with its hand-model counterpart is proved in\n'
    header += '   SSJ/Proofs/GenLoops.lean. -/\n'
    header += 'import SSJ.Model.Filters\nnamespace SSJ.Gen2\nopen SSJ\n\n'
    text = header + '\n'.join(pieces) + '\nend SSJ.Gen2\n'
    return text, names, shas, notes


def main():
    if len(sys.argv) != 3:
        sys.stderr.write(__doc__)
        sys.exit(2)
    repo, outdir = sys.argv[1], sys.argv[2]
    summary = {'files': [], 'functions': [], 'notes': [], 'error': None}
    try:
        text, names, shas, notes = generate(repo)
        os.makedirs(outdir, exist_ok=True)
        path = os.path.join(outdir, 'Loops.lean')
        old = open(path, encoding='utf-8').read() if os.path.exists(path) else None
        if old != text:
            with open(path, 'w', encoding='utf-8') as fh:
                fh.write(text)
        summary['files'].append({'lean': 'Loops.lean', 'changed': old != text,
                                 'sha256': hashlib.sha256(text.encode('utf-8')).hexdigest(),
                                 'sources': [{'source': r, 'sha256': h} for r, h in shas]})
        summary['functions'] = names
        summary['notes'] = notes
    except (Untranslatable, SyntaxError, OSError) as e:
        summary['error'] = str(e)
        print(json.dumps(summary, ensure_ascii=False))
        sys.stderr.write('py2lean2: %s\n' % e)
        sys.exit(3)
    except Exception as e:          # a shape the translator did not anticipate: refuse, never guess
        import traceback
        tb = traceback.extract_tb(e.__traceback__)[-1]
        summary['error'] = 'internal: %s: %s (py2lean2.py:%d) — treated as outside the table' % (
            type(e).__name__, e, tb.lineno)
        print(json.dumps(summary, ensure_ascii=False))
        sys.stderr.write('py2lean2: %s\n' % summary['error'])
        sys.exit(3)
    print(json.dumps(summary, ensure_ascii=False))


if __name__ == '__main__':
    main()

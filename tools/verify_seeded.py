#!/usr/bin/env python3
"""verify_seeded.py <ID> <out_dir> — confirm a seeded change in a scratch worktree:
   (1) patch applies, package imports; (2) the 109 stable tests of BASELINE.json still pass with the change;
   (3) demo.py exits 1 with the change and 0 without.  Prints a JSON summary."""
import json, os, subprocess, sys, shutil, tempfile
import xml.etree.ElementTree as ET
pid, out = sys.argv[1], sys.argv[2]
scratch = '/tmp/scratch_%s' % pid
subprocess.run(['git', '-C', '/repo', 'worktree', 'remove', '--force', scratch], stdout=subprocess.DEVNULL, stderr=subprocess.DEVNULL)
subprocess.check_call(['git', '-C', '/repo', 'worktree', 'add', '-q', scratch, 'HEAD'])
res = {'id': pid}
try:
    patch = os.path.join(out, 'patch.diff')
    def demo():
        shutil.copy(os.path.join(out, 'demo.py'), os.path.join(scratch, 'demo_seeded.py'))
        p = subprocess.run(['/venv/bin/python', '-W', 'ignore', 'demo_seeded.py'], cwd=scratch, stdout=subprocess.PIPE, stderr=subprocess.STDOUT, timeout=1800)
        os.remove(os.path.join(scratch, 'demo_seeded.py'))
        return p.returncode, p.stdout.decode()[-400:]
    rc0, o0 = demo()
    res['demo_without'] = rc0
    a = subprocess.run(['git', 'apply', patch], cwd=scratch, stdout=subprocess.PIPE, stderr=subprocess.STDOUT)
    res['applies'] = a.returncode == 0
    if a.returncode != 0:
        res['apply_err'] = a.stdout.decode()[-300:]
    else:
        rc1, o1 = demo()
        res['demo_with'] = rc1
        res['demo_with_tail'] = o1[-300:]
        base = json.load(open('/root/.vp/BASELINE.json'))
        xml = os.path.join(scratch, 'junit_seeded.xml')
        cmd = base['cmd'].replace('cd /repo', 'cd ' + scratch).replace('<file>', xml)
        subprocess.run(cmd, shell=True, stdout=subprocess.DEVNULL, stderr=subprocess.DEVNULL, timeout=3000)
        passed = set()
        for tc in ET.parse(xml).getroot().iter('testcase'):
            if not any(ch.tag in ('failure', 'error', 'skipped') for ch in tc):
                passed.add('%s::%s' % (tc.get('classname'), tc.get('name')))
        res['stable_missing'] = [t for t in base['stable_pass'] if t not in passed]
        res['n_passed'] = len(passed)
        res['files'] = subprocess.run(['git', 'diff', '--stat'], cwd=scratch, stdout=subprocess.PIPE).stdout.decode().strip().splitlines()[:-1]
    res['confirmed'] = bool(res.get('applies') and res.get('demo_without') == 0 and res.get('demo_with') == 1 and not res.get('stable_missing'))
finally:
    subprocess.run(['git', '-C', '/repo', 'worktree', 'remove', '--force', scratch], stdout=subprocess.DEVNULL, stderr=subprocess.DEVNULL)
print(json.dumps(res))

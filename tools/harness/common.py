"""Shared pieces of the correspondence harness: canonical JSON forms, the Lean driver pipe,
tokenizer tables, random generators.  Runs under /venv/bin/python with PYTHONPATH=/repo."""
import json
import math
import os
import random
import struct
import subprocess
import sys
import warnings

warnings.filterwarnings('ignore')

VERIF = os.path.dirname(os.path.dirname(os.path.dirname(os.path.abspath(__file__))))
REPO = os.environ.get('SSJ_REPO', '/repo')
if REPO not in sys.path:
    sys.path.insert(0, REPO)

import numpy as np          # noqa: E402
import pandas as pd         # noqa: E402

import py_stringsimjoin as ssj                                   # noqa: E402
ssj.__use_cython__ = False      # the Cython extensions are not built here; public wrappers -> *_py

from py_stringmatching.tokenizer.whitespace_tokenizer import WhitespaceTokenizer      # noqa: E402
from py_stringmatching.tokenizer.delimiter_tokenizer import DelimiterTokenizer        # noqa: E402
from py_stringmatching.tokenizer.qgram_tokenizer import QgramTokenizer                # noqa: E402
from py_stringmatching.tokenizer.alphabetic_tokenizer import AlphabeticTokenizer      # noqa: E402
from py_stringmatching.tokenizer.alphanumeric_tokenizer import AlphanumericTokenizer  # noqa: E402
from py_stringmatching.tokenizer.tokenizer import Tokenizer                           # noqa: E402

DRIVER = os.path.join(VERIF, 'lean', '.lake', 'build', 'bin', 'driver')
CPU = 16      # the model's cpu_count parameter; the harness patches multiprocessing.cpu_count to this


# ------------------------------------------------------------------ canonical forms
def f2hex(x):
    return '%016x' % struct.unpack('<Q', struct.pack('<d', float(x)))[0]


def hex2f(h):
    return struct.unpack('<d', struct.pack('<Q', int(h, 16)))[0]


def is_missing(v):
    if v is None or v is pd.NA or v is pd.NaT:
        return True
    if isinstance(v, (float, np.floating)) and math.isnan(v):
        return True
    return False


def cell(v):
    """canonical JSON form of a DataFrame cell (by value class, not Python type)"""
    if is_missing(v):
        return None
    if isinstance(v, (bool, np.bool_)):
        return {'o': 'bool:%s' % bool(v)}
    if isinstance(v, (int, np.integer)):
        return {'i': int(v)}
    if isinstance(v, (float, np.floating)):
        v = float(v)
        if v == 0.0:
            v = 0.0           # -0.0 and 0.0 are one value class
        return {'f': f2hex(v)}
    if isinstance(v, str):
        return {'s': v}
    return {'o': '%s:%r' % (type(v).__name__, v)}


def pyv(v):
    """canonical JSON form of a Python scalar handed to / returned by a kernel function"""
    if v is None:
        return None
    if isinstance(v, (bool, np.bool_)):
        return {'b': bool(v)}
    if isinstance(v, (int, np.integer)):
        return {'i': int(v)}
    if isinstance(v, (float, np.floating)):
        return {'f': f2hex(v)}
    if isinstance(v, str):
        return {'s': v}
    raise TypeError('pyv: %r' % (v,))


def dtype_tag(dt):
    if dt == object:
        return 'object'
    if isinstance(dt, pd.StringDtype):
        return 'str'
    try:
        if np.issubdtype(dt, np.integer):
            return 'int'
        if np.issubdtype(dt, np.floating):
            return 'float'
    except TypeError:
        pass
    return str(dt)


def frame(df):
    """canonical JSON form of an input DataFrame (None = 'not a DataFrame')"""
    if not isinstance(df, pd.DataFrame):
        return None
    return {'columns': [str(c) for c in df.columns],
            'dtypes': [dtype_tag(df[c].dtype) if list(df.columns).count(c) == 1 else 'object' for c in df.columns],
            'index': [cell(x) for x in df.index],
            'rows': [[cell(x) for x in row] for row in df.itertuples(index=False, name=None)]}


def out_frame(df):
    """canonical JSON form of a result DataFrame"""
    return {'columns': [str(c) for c in df.columns],
            'index': [cell(x) for x in df.index],
            'rows': [[cell(x) for x in row] for row in df.itertuples(index=False, name=None)]}


ERR_ENUM = {'TypeError': 'TypeError', 'AssertionError': 'AssertionError', 'OverflowError': 'OverflowError',
            'ZeroDivisionError': 'ZeroDivisionError'}


def err_name(e):
    """the documented exception class an exception belongs to: a subclass of AssertionError IS an AssertionError"""
    for c in type(e).__mro__:
        if c.__name__ in ERR_ENUM:
            return ERR_ENUM[c.__name__]
    return 'Other'


def sort_rows(fr, skip_first=True):
    """multiset view of a result frame: rows sorted, `_id` (first column) and index dropped.
    Used where Python leaves the order undefined (iteration over a `set`)."""
    rows = [r[1:] if skip_first else r for r in fr['rows']]
    rows = sorted(rows, key=lambda r: json.dumps(r, sort_keys=True))
    return {'columns': fr['columns'], 'rows': rows, 'n': len(rows)}


# ------------------------------------------------------------------ the Lean driver
class DriverError(Exception):
    pass


def run_driver(requests, timeout=900):
    """pipe requests (list of dicts) through the compiled model; returns list of dicts"""
    if not os.path.exists(DRIVER):
        raise DriverError('driver executable missing: %s (run tools/setup.sh)' % DRIVER)
    data = '\n'.join(json.dumps(r, ensure_ascii=False) for r in requests) + '\n'
    p = subprocess.run([DRIVER], input=data.encode('utf-8'), stdout=subprocess.PIPE, stderr=subprocess.PIPE,
                       timeout=timeout)
    if p.returncode != 0:
        raise DriverError('driver exit %d: %s' % (p.returncode, p.stderr.decode()[-500:]))
    # split on '\n' only: str.splitlines() also splits on U+0085, U+2028, U+2029 …, which the driver echoes raw inside strings
    lines = [ln for ln in p.stdout.decode('utf-8').split('\n') if ln != '']
    if len(lines) != len(requests):
        raise DriverError('driver answered %d of %d requests; stderr=%s' % (len(lines), len(requests), p.stderr.decode()[-500:]))
    out = []
    for ln in lines:
        out.append(json.loads(ln))
    return out


# ------------------------------------------------------------------ tokenizers
class TokSpec:
    """a real py_stringmatching tokenizer plus the description the model needs"""

    COUNTER = 0
    NUMPY_FLAGS = False      # set by the generators: a share of the tokenizers gets its return_set flag as a numpy bool

    def __init__(self, kind, return_set=False, qval=2, padding=True, delims=None):
        self.kind, self.qval, self.padding, self.delims = kind, qval, padding, delims
        TokSpec.COUNTER += 1
        if TokSpec.NUMPY_FLAGS and TokSpec.COUNTER % 2 == 0:      # (the counter is reset at the start of every suite / oracle)
            # a flag that came out of a numpy comparison / a DataFrame cell: np.False_ is falsy but `is not False`
            return_set = np.bool_(return_set)
        if kind == 'ws':
            self.obj = WhitespaceTokenizer(return_set=return_set)
        elif kind == 'delim':
            self.obj = DelimiterTokenizer(delim_set=delims or [','], return_set=return_set)
        elif kind == 'qgram':
            self.obj = QgramTokenizer(qval=qval, padding=padding, return_set=return_set)
        elif kind == 'alpha':
            self.obj = AlphabeticTokenizer(return_set=return_set)
        elif kind == 'alnum':
            self.obj = AlphanumericTokenizer(return_set=return_set)
        else:
            raise ValueError(kind)

    def describe(self):
        return {'is_tokenizer': True, 'is_qgram': self.kind == 'qgram', 'qval': self.qval,
                'return_set': bool(self.obj.get_return_set()), 'kind': self.kind, 'padding': self.padding, 'delims': self.delims}

    def reconfigure(self, rng):
        """change the configuration of the tokenizer OBJECT in place through its own setters (what a caller may do between
        two calls): the description follows; anything remembered about the object under its old configuration is stale"""
        c = rng.random()
        if self.kind == 'qgram' and c < 0.4:
            self.qval = rng.choice([q for q in (1, 2, 3) if q != self.qval])
            self.last_reconf = ('set_qval', self.qval)
        elif self.kind == 'qgram' and c < 0.6:
            self.padding = not self.padding
            self.last_reconf = ('set_padding', self.padding)
        elif self.kind == 'delim' and c < 0.5:
            self.delims = rng.choice([[','], [' '], [',', ' '], ['-']])
            self.last_reconf = ('set_delim_set', self.delims)
        else:
            self.last_reconf = ('set_return_set', not bool(self.obj.get_return_set()))
        getattr(self.obj, self.last_reconf[0])(self.last_reconf[1])
        return '%s(%r)' % self.last_reconf

    def tokens(self, s, mode):
        old = self.obj.get_return_set()
        self.obj.set_return_set(mode)
        try:
            return list(self.obj.tokenize(s))
        finally:
            self.obj.set_return_set(old)

    def table(self, strings):
        """tokenization table for the model: both modes, every given string"""
        st, bg = {}, {}
        for s in strings:
            if isinstance(s, str) and s not in st:
                st[s] = self.tokens(s, True)
                bg[s] = self.tokens(s, False)
        return {'set': st, 'bag': bg}


def strings_of(*cols):
    out = []
    for c in cols:
        for v in c:
            if isinstance(v, str):
                out.append(v)
    return out


# ------------------------------------------------------------------ random generators
THRESH_DECIMALS = [k / 100.0 for k in range(1, 101)] + [k / 1000.0 for k in range(1, 1000, 7)]


def gen_threshold(rng, allow_int=True):
    """a threshold in (0,1] from several classes; returns (value, class name)"""
    c = rng.random()
    if c < 0.45:
        return rng.choice(THRESH_DECIMALS), 'decimal'
    if c < 0.6:
        return rng.uniform(0.05, 1.0), 'random'
    if c < 0.75:
        q = rng.randint(2, 40)
        p = rng.randint(1, q)
        return p / q, 'fraction'
    if c < 0.85:
        return rng.choice([0.5, 0.25, 0.75, 0.125, 1.0]), 'dyadic'
    if c < 0.92:
        x = math.nextafter(rng.choice(THRESH_DECIMALS), rng.choice([0.0, 2.0]))
        return (x if x <= 1.0 else math.nextafter(1.0, 0.0)), 'ulp'
    if c < 0.95 and allow_int:
        return 1, 'int1'
    if c < 0.96 and allow_int:
        return True, 'bool_true'         # bool is a subclass of int: True is the threshold 1
    return rng.uniform(0.001, 0.05), 'small'


class Universe:
    """token universe with Zipf-like weights, so that the global token order is non-trivial"""

    def __init__(self, rng, size=None, unicode_tokens=False):
        self.rng = rng
        size = size or rng.randint(4, 40)
        pool = []
        alphabet = 'abcdefghijklmnopqrstuvwxyz'
        while len(pool) < size:
            w = ''.join(rng.choice(alphabet) for _ in range(rng.randint(1, 3)))
            if unicode_tokens and rng.random() < 0.2:
                w += rng.choice('éßλж中')
            if w not in pool:
                pool.append(w)
        self.tokens = pool
        self.weights = [1.0 / (i + 1) ** rng.choice([0.0, 0.7, 1.2]) for i in range(size)]

    def sample_set(self, n):
        n = min(n, len(self.tokens))
        chosen = []
        toks, w = list(self.tokens), list(self.weights)
        for _ in range(n):
            t = self.rng.choices(range(len(toks)), weights=w)[0]
            chosen.append(toks.pop(t))
            w.pop(t)
        return chosen

    def sample_bag(self, n):
        return self.rng.choices(self.tokens, weights=self.weights, k=n)


def size_dist(rng, big=False):
    c = rng.random()
    if c < 0.08:
        return 0
    if c < 0.75:
        return rng.randint(1, 8)
    if c < 0.95 or not big:
        return rng.randint(8, 14)
    return rng.randint(15, 40)


def make_string(rng, toks, sep=' '):
    s = sep.join(toks)
    if sep == ' ' and rng.random() < 0.1:
        s = ' ' + s + '  '
    return s


def gen_table_pair(rng, n_left=None, n_right=None, missing_p=None, big=False, unicode_tokens=False, sep=' ',
                   threshold=None, dup_tokens=False):
    """two lists of join strings (or None for missing) with planted near-threshold pairs"""
    uni = Universe(rng, unicode_tokens=unicode_tokens)
    n_left = rng.randint(0, 9) if n_left is None else n_left
    n_right = rng.randint(0, 9) if n_right is None else n_right
    missing_p = rng.choice([0.0, 0.0, 0.15, 0.4]) if missing_p is None else missing_p

    def one():
        n = size_dist(rng, big)
        toks = uni.sample_bag(n) if dup_tokens and rng.random() < 0.5 else uni.sample_set(n)
        return toks
    left = [one() for _ in range(n_left)]
    right = []
    for _ in range(n_right):
        if left and rng.random() < 0.5:
            base = list(rng.choice(left))
            # perturb: drop / add a few tokens so that the similarity lands near typical thresholds
            k = rng.randint(0, max(1, len(base) // 2))
            for _ in range(k):
                if base and rng.random() < 0.6:
                    base.pop(rng.randrange(len(base)))
                else:
                    extra = uni.sample_set(1)
                    if extra and (dup_tokens or extra[0] not in base):
                        base.append(extra[0])
            rng.shuffle(base)
            right.append(base)
        else:
            right.append(one())

    def strs(rows):
        out = []
        for toks in rows:
            if rng.random() < missing_p:
                out.append(rng.choice([None, np.nan]))
            else:
                out.append(make_string(rng, toks, sep))
        return out
    return strs(left), strs(right)


def make_frame(rng, values, key_kind=None, attr='attr', key='id', extra_cols=None, shuffle_cols=None,
               odd_index=None, str_dtype=False):
    """DataFrame with a unique key column, the join column (object dtype) and optional extras"""
    n = len(values)
    key_kind = key_kind or rng.choice(['int', 'str', 'int_offset', 'int', 'str', 'int_offset', 'mixed', 'int_big'])
    if key_kind == 'int':
        keys = list(range(n))
    elif key_kind == 'int_big':
        # 17-19 digit identifiers (snowflake ids): neighbouring keys are distinct ints but equal once cast to float64
        base = rng.choice([2 ** 53, 10 ** 17, 2 ** 62 - 1000])
        keys = [base + i for i in rng.sample(range(3 * n + 3), n)]
    elif key_kind == 'int_offset':
        keys = rng.sample(range(100, 100 + 3 * n + 3), n)
    elif key_kind == 'mixed':
        # an object column of ints, non-integral floats and strings: distinct under Python equality (1 == 1.0 == True would not be)
        # (ints and floats are not mixed in one column: pandas would turn a numeric-only output column into float64, which
        # is its dtype inference and not the library's doing)
        num = rng.choice([lambda i: i, lambda i: i + 0.5])
        keys = [rng.choice([num(i), 'k%d' % i]) for i in rng.sample(range(3 * n + 3), n)]
    else:
        keys = ['k%d' % i for i in rng.sample(range(3 * n + 3), n)]
    cols = {key: pd.Series(keys, dtype=object if key_kind in ('str', 'mixed') else None)}
    col = pd.Series(values, dtype=object)
    if str_dtype:
        col = pd.Series(values, dtype=str_dtype if isinstance(str_dtype, str) else 'str')
    cols[attr] = col
    extra_cols = rng.randint(0, 2) if extra_cols is None else extra_cols
    for i in range(extra_cols):
        kind = rng.choice(['int', 'float', 'str'])
        name = 'x%d' % i
        if kind == 'int':
            cols[name] = pd.Series([rng.randint(-5, 50) for _ in range(n)], dtype='int64')
        elif kind == 'float':
            cols[name] = pd.Series([rng.choice([1.5, 2.25, float('nan'), -0.5, 10.0]) for _ in range(n)], dtype='float64')
        else:
            cols[name] = pd.Series([rng.choice(['u', 'v', None, 'w w']) for _ in range(n)], dtype=object)
    names = list(cols)
    if shuffle_cols is None:
        shuffle_cols = rng.random() < 0.5
    if shuffle_cols:
        rng.shuffle(names)
    df = pd.DataFrame({c: cols[c] for c in names}, columns=names)
    if n == 0:
        df = pd.DataFrame({c: pd.Series([], dtype=cols[c].dtype) for c in names}, columns=names)
    if odd_index is None:
        odd_index = rng.random() < 0.4
    if odd_index and n > 0:
        if n > 1 and rng.random() < 0.35:
            # repeated row labels, as in pd.concat([part1, part2]) without ignore_index: 0,1,0,1 — labels do not identify rows
            k = rng.randint(1, n - 1)
            df.index = [i % k for i in range(n)]
        else:
            df.index = rng.sample(range(-3, 5 * n + 5), n)
    return df


def progress_kw(*shape):
    """`show_progress` is True by default in every entry point: a share of the calls (chosen by a stable hash of the call's
    shape, so that a replay makes the same choice) leaves it at the default; run those under `quiet()`"""
    import zlib
    return {} if zlib.crc32(repr(shape).encode()) % 6 == 0 else {'show_progress': False}


class quiet:
    """the progress bar (pyprind) and the package's progress messages write to sys.stderr / sys.stdout: send both to /dev/null for the duration of a call"""

    def __enter__(self):
        import os as _o, sys as _s
        self._old, self._f = (_s.stdout, _s.stderr), open(_o.devnull, 'w')
        _s.stdout = _s.stderr = self._f

    def __exit__(self, *a):
        import sys as _s
        _s.stdout, _s.stderr = self._old
        self._f.close()
        return False


def choose_out_attrs(rng, df, key, attr):
    c = rng.random()
    cols = list(df.columns)
    if c < 0.3:
        return None
    if c < 0.4:
        return []
    k = rng.randint(1, min(4, len(cols) + 1))
    return [rng.choice(cols) for _ in range(k)]      # may contain key, join attribute, repeats


class Stats:
    """input-distribution counters written into the evidence"""

    def __init__(self):
        self.c = {}

    def hit(self, k, n=1):
        self.c[k] = self.c.get(k, 0) + n

    def merge(self, other):
        for k, v in other.c.items():
            self.hit(k, v)

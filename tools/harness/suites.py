"""Correspondence suites: each yields (request for the Lean driver, canonical answer of the REAL
code, meta).  `run_suites` pipes the requests through the model and diffs."""
import copy
import json
import math
import multiprocessing
import random
import sys

from common import *   # noqa: F401,F403
import common

from py_stringsimjoin.filter import filter_utils as FU
from py_stringsimjoin.utils import validation as VAL
from py_stringsimjoin.utils import generic_helper as GH
from py_stringsimjoin.utils.token_ordering import gen_token_ordering_for_lists, gen_token_ordering_for_tables, \
    order_using_token_ordering
from py_stringsimjoin.index.position_index import PositionIndex
from py_stringsimjoin.index.prefix_index import PrefixIndex
from py_stringsimjoin.index.size_index import SizeIndex
from py_stringsimjoin.index.inverted_index import InvertedIndex
from py_stringsimjoin.filter.size_filter import SizeFilter
from py_stringsimjoin.filter.prefix_filter import PrefixFilter
from py_stringsimjoin.filter.position_filter import PositionFilter
from py_stringsimjoin.filter.suffix_filter import SuffixFilter
from py_stringsimjoin.filter.overlap_filter import OverlapFilter
from py_stringsimjoin.utils.missing_value_handler import get_pairs_with_missing_value
from py_stringsimjoin.join.jaccard_join_py import jaccard_join_py
from py_stringsimjoin.join.cosine_join_py import cosine_join_py
from py_stringsimjoin.join.dice_join_py import dice_join_py
from py_stringsimjoin.join.overlap_join_py import overlap_join_py
from py_stringsimjoin.join.overlap_coefficient_join_py import overlap_coefficient_join_py
from py_stringsimjoin.join.edit_distance_join_py import edit_distance_join_py
from py_stringsimjoin.matcher.apply_matcher import apply_matcher
from py_stringmatching.similarity_measure.levenshtein import Levenshtein
from py_stringmatching.similarity_measure.jaccard import Jaccard
from py_stringmatching.similarity_measure.cosine import Cosine
from py_stringmatching.similarity_measure.dice import Dice
from py_stringmatching.similarity_measure.overlap_coefficient import OverlapCoefficient



class SerialParallel:
    """in-process stand-in for joblib.Parallel: same jobs, same order, one after the other.
    joblib's contract (workers share nothing, results in job order) is assumed, not checked, here;
    the thorough tier also runs real worker processes (REAL_PROCESSES=1)."""

    def __init__(self, n_jobs=None, **kw):
        self.n_jobs = n_jobs

    def __call__(self, jobs):
        return [f(*a, **k) for (f, a, k) in jobs]


def patch_parallel(serial=True):
    import importlib
    import joblib
    mods = ['join.jaccard_join_py', 'join.cosine_join_py', 'join.dice_join_py', 'join.overlap_coefficient_join_py',
            'join.edit_distance_join_py', 'filter.filter', 'filter.size_filter', 'filter.prefix_filter',
            'filter.position_filter', 'filter.suffix_filter', 'filter.overlap_filter', 'matcher.apply_matcher']
    for m in mods:
        mod = importlib.import_module('py_stringsimjoin.' + m)
        if hasattr(mod, 'Parallel'):
            mod.Parallel = SerialParallel if serial else joblib.Parallel


import os as _os
patch_parallel(_os.environ.get('REAL_PROCESSES') != '1')

# the model takes the CPU count as a parameter; pin the real one to the same number
multiprocessing.cpu_count = lambda: common.CPU
GH.multiprocessing.cpu_count = lambda: common.CPU

MEASURES = ['JACCARD', 'COSINE', 'DICE']
ALL_MEASURES = ['JACCARD', 'COSINE', 'DICE', 'OVERLAP', 'EDIT_DISTANCE']


def real(fn, *a, **k):
    """canonical answer of a real kernel function returning a scalar"""
    try:
        return {'ok': pyv(fn(*a, **k))}
    except Exception as e:          # noqa: BLE001
        return {'ok': {'err': err_name(e)}}


class QV:
    def __init__(self, q):
        self.qval = q


# ------------------------------------------------------------------ Gen grid (translator validation)
def suite_gen(rng, n, stats):
    cases = []
    sizes = list(range(0, 61)) + [rng.randint(61, 300) for _ in range(20)] + [rng.randint(300, 10 ** 6) for _ in range(10)]
    for _ in range(n):
        t, cls = gen_threshold(rng)
        if rng.random() < 0.03:
            t = rng.choice([5e-324, 1e-300, 1e-160, 2.0 ** -30, 1e-9])
            cls = 'tiny'
        m = rng.choice(ALL_MEASURES)
        if m == 'EDIT_DISTANCE':
            t = rng.randint(0, 6)
        elif m == 'OVERLAP':
            t = rng.randint(1, 8)
        stats.hit('gen.threshold.' + cls)
        stats.hit('gen.measure.' + m)
        a = rng.choice(sizes)
        b = rng.choice(sizes)
        q = rng.randint(1, 4)
        qv = pyv(q) if m == 'EDIT_DISTANCE' else None
        tok = QV(q) if m == 'EDIT_DISTANCE' else None
        cases.append(({'op': 'gen', 'fn': 'get_size_lower_bound', 'args': [pyv(a), pyv(m), pyv(t)]},
                      real(FU.get_size_lower_bound, a, m, t), None))
        cases.append(({'op': 'gen', 'fn': 'get_size_upper_bound', 'args': [pyv(a), pyv(m), pyv(t)]},
                      real(FU.get_size_upper_bound, a, m, t), None))
        cases.append(({'op': 'gen', 'fn': 'get_prefix_length', 'args': [pyv(a), pyv(m), pyv(t), qv]},
                      real(FU.get_prefix_length, a, m, t, tok), None))
        cases.append(({'op': 'gen', 'fn': 'get_overlap_threshold', 'args': [pyv(a), pyv(b), pyv(m), pyv(t), qv]},
                      real(FU.get_overlap_threshold, a, b, m, t, tok), None))
    # validation helpers
    for _ in range(max(20, n // 10)):
        m = rng.choice(ALL_MEASURES + ['OVERLAP_COEFFICIENT'])
        t = rng.choice([0, 1, -1, 0.0, 1.0, 0.5, 1.0000000000000002, -0.0, 5e-324, 2, 7.5, -3, 0.9999999999999999])
        cases.append(({'op': 'gen', 'fn': 'validate_threshold', 'args': [pyv(t), pyv(m)]}, real(VAL.validate_threshold, t, m), None))
        op = rng.choice(['>=', '>', '<=', '<', '=', '!=', '==', 'ge', ''])
        cases.append(({'op': 'gen', 'fn': 'validate_comp_op_for_sim_measure', 'args': [pyv(op), pyv(m)]},
                      real(VAL.validate_comp_op_for_sim_measure, op, m), None))
        cases.append(({'op': 'gen', 'fn': 'validate_comp_op', 'args': [pyv(op)]}, real(VAL.validate_comp_op, op), None))
        sm = rng.choice(ALL_MEASURES + ['jaccard', 'Cosine', 'TFIDF', 'OVERLAP_COEFFICIENT', ''])
        cases.append(({'op': 'gen', 'fn': 'validate_sim_measure_type', 'args': [pyv(sm)]}, real(VAL.validate_sim_measure_type, sm), None))
        nj = rng.choice([1, 2, 3, 0, -1, -2, -16, -17, -40, 100])
        cases.append(({'op': 'gen', 'fn': 'get_num_processes_to_launch', 'args': [pyv(nj), pyv(common.CPU)]},
                      real(GH.get_num_processes_to_launch, nj), None))
    return cases


def suite_f64(rng, n, stats):
    cases = []
    import struct

    def rf():
        c = rng.random()
        if c < 0.3:
            return float(rng.randint(0, 10 ** rng.randint(0, 12)))
        if c < 0.6:
            return rng.choice(THRESH_DECIMALS)
        if c < 0.8:
            return rng.uniform(0, 1) * 10 ** rng.randint(-12, 12)
        if c < 0.9:
            return struct.unpack('<d', struct.pack('<Q', rng.getrandbits(62)))[0]
        return rng.choice([5e-324, 2.2250738585072014e-308, 1.7976931348623157e308, 0.5, 2.5, 0.03125, 7.00005, 7.00015])

    def res(f):
        try:
            v = f()
            if isinstance(v, float) and math.isnan(v):
                return {'ok': {'err': 'Other'}}
            return {'ok': pyv(v)}
        except Exception as e:   # noqa: BLE001
            return {'ok': {'err': err_name(e)}}
    for _ in range(n):
        a, b = rf(), rf()
        for f, fn in (('mul', lambda: a * b), ('div', lambda: a / b), ('add', lambda: a + b), ('sub', lambda: a - b if a >= b else b - a)):
            x, y = (a, b) if f != 'sub' or a >= b else (b, a)
            cases.append(({'op': 'f64', 'f': f, 'a': f2hex(x), 'b': f2hex(y)}, res(fn), None))
        cases.append(({'op': 'f64', 'f': 'sqrt', 'a': f2hex(a)}, res(lambda: math.sqrt(a)), None))
        if a < 1e15:
            cases.append(({'op': 'f64', 'f': 'round4', 'a': f2hex(a)}, res(lambda: round(a, 4)), None))
            cases.append(({'op': 'f64', 'f': 'round2', 'a': f2hex(a)}, res(lambda: round(a, 2)), None))
        cases.append(({'op': 'f64', 'f': 'round0', 'a': f2hex(a)}, res(lambda: round(a)), None))
        cases.append(({'op': 'f64', 'f': 'ceil', 'a': f2hex(a)}, res(lambda: math.ceil(a)), None))
        cases.append(({'op': 'f64', 'f': 'floor', 'a': f2hex(a)}, res(lambda: math.floor(a)), None))
        k = rng.randint(0, 2 ** rng.randint(1, 70))
        cases.append(({'op': 'f64', 'f': 'ofint', 'n': k}, res(lambda: float(k)), None))
    stats.hit('f64.operand_pairs', n)
    return cases


# ------------------------------------------------------------------ function level: ordering / indexes / candidates
TokSpec.NUMPY_FLAGS = True


def gen_tokenizer(rng, qgram=None):
    if qgram is None:
        qgram = rng.random() < 0.25
    if qgram:
        return TokSpec('qgram', return_set=rng.random() < 0.5, qval=rng.randint(1, 4), padding=rng.random() < 0.6)
    kind = rng.choice(['ws', 'ws', 'delim', 'alnum'])
    if kind == 'delim':
        return TokSpec('delim', return_set=rng.random() < 0.5, delims=rng.choice([[','], [',', ';'], ['|']]))
    return TokSpec(kind, return_set=rng.random() < 0.5)


def gen_strings_for(rng, ts, n, big=False, missing_p=0.0):
    """join strings suited to tokenizer `ts`"""
    if ts.kind == 'qgram':
        alpha = rng.choice(['ab', 'abc', 'abcde', 'abé', 'ab', 'abc', 'abcde', 'abé', 'a0а'])     # 'а' CYRILLIC: see K8
        out = []
        base = [''.join(rng.choice(alpha) for _ in range(rng.randint(0, 10))) for _ in range(max(1, n // 2))]
        for _ in range(n):
            c0 = rng.random()
            if c0 < 0.12 and out:
                out.append(rng.choice(out))         # exact duplicates: the only qualifying pairs at threshold 0
            elif c0 < 0.2:
                ch = rng.choice(alpha)               # runs of one character: the same q-gram many times
                out.append(ch * rng.randint(1, 7) + ''.join(rng.choice(alpha) for _ in range(rng.randint(0, 2))))
            elif c0 < 0.6:
                s = list(rng.choice(base))
                for _ in range(rng.randint(0, 3)):
                    c = rng.random()
                    if s and c < 0.35:
                        s.pop(rng.randrange(len(s)))
                    elif s and c < 0.7:
                        s[rng.randrange(len(s))] = rng.choice(alpha)
                    else:
                        s.insert(rng.randint(0, len(s)), rng.choice(alpha))
                out.append(''.join(s))
            else:
                out.append(''.join(rng.choice(alpha) for _ in range(rng.randint(0, 10))))
        return [None if rng.random() < missing_p else s for s in out]
    sep = ' '
    if ts.kind == 'delim':
        sep = ts.delims[0]
    l, _ = gen_table_pair(rng, n_left=n, n_right=0, missing_p=missing_p, big=big, sep=sep,
                          dup_tokens=True, unicode_tokens=rng.random() < 0.2)
    return l


def gen_measure_threshold(rng, ts, measures=None):
    ms = measures or (ALL_MEASURES if ts.kind == 'qgram' else ['JACCARD', 'COSINE', 'DICE', 'OVERLAP'])
    m = rng.choice(ms)
    # the documented type of a filter threshold is float: integral and fractional floats are valid for EDIT_DISTANCE / OVERLAP too
    if m == 'EDIT_DISTANCE':
        if rng.random() < 0.3:
            return m, rng.choice([0.0, 0.5, 1.0, 1.5, 2.0, 2.7, 3.0]), 'ed_float'
        return m, rng.randint(0, 4), 'ed'
    if m == 'OVERLAP':
        if rng.random() < 0.3:
            return m, rng.choice([0.5, 1.0, 1.5, 2.0, 2.5, 3.0]), 'ov_float'
        return m, rng.randint(1, 4), 'ov'
    t, cls = gen_threshold(rng)
    return m, t, cls


def fcfg(m, t, ts):
    return {'measure': m, 'threshold': pyv(t), 'qval': pyv(ts.qval) if ts.kind == 'qgram' else None}


def suite_ordering(rng, n, stats):
    cases = []
    for _ in range(n):
        ts = gen_tokenizer(rng)
        strs = gen_strings_for(rng, ts, rng.randint(0, 8))
        lists = [ts.obj.tokenize(s) for s in strs]
        ordering = gen_token_ordering_for_lists(lists)
        cases.append(({'op': 'token_ordering', 'lists': lists},
                      {'ok': [[k, v] for k, v in ordering.items()]}, None))
        tables = [[(s,) for s in strs[:len(strs) // 2]], [(s,) for s in strs[len(strs) // 2:]]]
        o2 = gen_token_ordering_for_tables(tables, [0, 0], ts.obj, 'JACCARD')
        cases.append(({'op': 'token_ordering', 'lists': lists}, {'ok': [[k, v] for k, v in o2.items()]}, None))
        if lists:
            probe = lists[0] + ['zz-unknown']
            cases.append(({'op': 'order_using', 'tokens': probe, 'lists': lists},
                          {'ok': order_using_token_ordering(probe, ordering)}, None))
        stats.hit('ordering.distinct_tokens.%d' % min(20, len(ordering) // 5 * 5))
    return cases


def suite_index(rng, n, stats):
    cases = []
    for _ in range(n):
        ts = gen_tokenizer(rng)
        m, t, cls = gen_measure_threshold(rng, ts)
        ls = gen_strings_for(rng, ts, rng.randint(0, 7), big=rng.random() < 0.2)
        rs = gen_strings_for(rng, ts, rng.randint(0, 5))
        lt, rt = [(s,) for s in ls], [(s,) for s in rs]
        ce = rng.random() < 0.7
        ordering = gen_token_ordering_for_tables([lt, rt], [0, 0], ts.obj, m)
        try:
            pi = PositionIndex(lt, 0, ts.obj, m, t, ordering)
            pc = pi.build(ce, True)
            fi = PrefixIndex(lt, 0, ts.obj, m, t, ordering)
            fc = fi.build(ce)
            si = SizeIndex(lt, 0, ts.obj)
            sc = si.build(ce)
            ii = InvertedIndex(lt, 0, ts.obj, True)
            ic = ii.build(ce)
            exp = {'ok': {
                'pos_index': [[k, [list(x) for x in v]] for k, v in pi.index.items()],
                'pos_size_cache': pi.size_cache, 'pos_min': pi.min_length, 'pos_max': pi.max_length,
                'pos_cached': pc['cached_tokens'], 'pos_empty': pc['empty_records'],
                'pref_index': [[k, v] for k, v in fi.index.items()], 'pref_empty': fc['empty_records'],
                'size_index': [[k, v] for k, v in si.index.items()], 'size_min': si.min_length, 'size_max': si.max_length,
                'size_empty': sc['empty_records'],
                'inv_index': [[k, v] for k, v in ii.index.items()], 'inv_size_cache': ii.size_cache,
                'inv_empty': ic['empty_records']}}
        except (OverflowError, ZeroDivisionError):
            continue
        req = {'op': 'index_build', 'ltoks': [ts.obj.tokenize(s) for s in ls], 'rtoks': [ts.obj.tokenize(s) for s in rs],
               'cache_empty': ce}
        req.update(fcfg(m, t, ts))
        cases.append((req, exp, None))
        stats.hit('index.measure.' + m)
        stats.hit('index.rows', len(ls))
    return cases


def suite_candidates(rng, n, stats):
    cases = []
    for _ in range(n):
        ts = gen_tokenizer(rng)
        m, t, cls = gen_measure_threshold(rng, ts)
        big = rng.random() < 0.3
        ls = gen_strings_for(rng, ts, rng.randint(0, 8), big=big)
        rs = gen_strings_for(rng, ts, rng.randint(1, 6), big=big)
        if ls and rng.random() < 0.5:
            rs[0] = rng.choice(ls)
        lt, rt = [(s,) for s in ls], [(s,) for s in rs]
        ordering = gen_token_ordering_for_tables([lt, rt], [0, 0], ts.obj, m)
        try:
            pi = PositionIndex(lt, 0, ts.obj, m, t, ordering)
            pi.build(True, False)
            fi = PrefixIndex(lt, 0, ts.obj, m, t, ordering)
            fi.build(True)
            si = SizeIndex(lt, 0, ts.obj)
            si.build(True)
            ii = InvertedIndex(lt, 0, ts.obj)
            ii.build(False)
            pf = PositionFilter(ts.obj, m, t)
            xf = PrefixFilter(ts.obj, m, t)
            sf = SizeFilter(ts.obj, m, t)
            of = OverlapFilter(ts.obj, 1)
            exp = []
            for s in rs:
                toks = ts.obj.tokenize(s)
                ro = order_using_token_ordering(toks, ordering)
                pc = pf.find_candidates(ro, pi)
                exp.append({'position': [[k, v] for k, v in pc.items()],
                            'prefix': sorted(xf.find_candidates(ro, fi)),
                            'size': sorted(sf.find_candidates(len(toks), si)),
                            'overlap': [[k, v] for k, v in of.find_candidates(toks, ii).items()]})
                stats.hit('cand.position.kept', sum(1 for v in pc.values() if v > 0))
                stats.hit('cand.position.pruned', sum(1 for v in pc.values() if v == -1))
        except (OverflowError, ZeroDivisionError):
            continue
        req = {'op': 'find_candidates', 'ltoks': [ts.obj.tokenize(s) for s in ls], 'rtoks': [ts.obj.tokenize(s) for s in rs]}
        req.update(fcfg(m, t, ts))
        cases.append((req, {'ok': exp}, 'sort_sets'))
        stats.hit('cand.measure.' + m)
    return cases


def norm_candidates(resp):
    if 'ok' in resp and isinstance(resp['ok'], list):
        for r in resp['ok']:
            if isinstance(r, dict):
                r['prefix'] = sorted(r.get('prefix', []))
                r['size'] = sorted(r.get('size', []))
    return resp


# ------------------------------------------------------------------ filter_pair
FILTERS = {'size': SizeFilter, 'prefix': PrefixFilter, 'position': PositionFilter, 'suffix': SuffixFilter}


def suite_filter_pair(rng, n, stats, kinds=None):
    cases = []
    for _ in range(n):
        ts = gen_tokenizer(rng)
        kind = rng.choice(kinds or ['size', 'prefix', 'position', 'suffix', 'overlap'])
        ls = gen_strings_for(rng, ts, 6, big=rng.random() < 0.3, missing_p=0.1)
        pairs = []
        for _ in range(8):
            a = rng.choice(ls)
            b = rng.choice(ls) if rng.random() < 0.7 else a
            if rng.random() < 0.05:
                a = np.nan
            if BODY_ERRORS and rng.random() < 0.04:
                # a non-string, non-missing argument: the tokenizer raises TypeError (unless the other one is missing;
                # OverlapFilter returns early on falsy values)
                if rng.random() < 0.5:
                    a = rng.choice([5, 0, 2.5, True, False])
                else:
                    b = rng.choice([5, 0, 2.5, True, False])
            pairs.append((a, b))
        am = rng.random() < 0.3
        ae = rng.random() < 0.6
        toks = ts.table(strings_of([p[0] for p in pairs], [p[1] for p in pairs]))
        try:
            if kind == 'overlap':
                size = rng.randint(1, 4) if rng.random() < 0.75 else rng.choice([0.5, 1.5, 2.5, 2.0])   # any number > 0 is a valid overlap size
                op = rng.choice(['>=', '>', '='])
                f = OverlapFilter(ts.obj, size, op, am)
                req = {'op': 'filter_pair', 'kind': 'overlap', 'overlap_size': pyv(size), 'comp_op': op, 'allow_missing': am}
            else:
                m, t, cls = gen_measure_threshold(rng, ts)
                f = FILTERS[kind](ts.obj, m, t, ae, am)
                req = {'op': 'filter_pair', 'kind': kind, 'allow_empty': ae, 'allow_missing': am}
                req.update(fcfg(m, t, ts))
                stats.hit('filter_pair.%s.%s' % (kind, m))
            exp = []
            for a, b in pairs:
                try:
                    exp.append(bool(f.filter_pair(a, b)))
                except TypeError:
                    exp.append({'err': 'TypeError'})
        except (OverflowError, ZeroDivisionError):
            continue
        req.update({'toks': toks, 'return_set': bool(ts.obj.get_return_set()), 'pairs': [[cell(a), cell(b)] for a, b in pairs]})
        stats.hit('filter_pair.dropped', sum(1 for e in exp if e is True))
        stats.hit('filter_pair.kept', sum(1 for e in exp if e is False))
        stats.hit('filter_pair.raised', sum(1 for e in exp if isinstance(e, dict)))
        cases.append((req, {'ok': exp}, None))
    return cases


def suite_suffix_internals(rng, n, stats):
    cases = []
    ts = TokSpec('ws', return_set=True)
    for _ in range(n):
        m = rng.choice(MEASURES)
        t, _ = gen_threshold(rng)
        f = SuffixFilter(ts.obj, m, t)
        u = rng.randint(3, 14)
        if rng.random() < 0.35:
            # weakly sorted lists with repeated tokens (what q-gram bags give under EDIT_DISTANCE)
            l = sorted(rng.choice(range(1, u + 1)) for _ in range(rng.randint(0, u)))
            r = sorted(rng.choice(range(1, u + 1)) for _ in range(rng.randint(1, u)))
            stats.hit('suffix_internals.bags')
        else:
            l = sorted(rng.sample(range(1, u + 1), rng.randint(0, u)))
            r = sorted(rng.sample(range(1, u + 1), rng.randint(1, u)))
        hmax = rng.randint(-2, 12)
        probe = rng.randint(0, u + 1)
        left = rng.randint(0, max(0, len(l) - 1)) if l else 0
        right = rng.randint(-1, len(l) + 2)
        try:
            est = f._est_hamming_dist_lower_bound(l, r, len(l), len(r), hmax, 1)
            if l:
                part = f._partition(l, probe, left, right)
                part = [list(part[0]), list(part[1]), part[2], part[3]]
            else:
                part = None
            ln, rn = len(l) + rng.randint(1, 4), len(r) + rng.randint(1, 4)
            fs = bool(f._filter_suffix(l, r, ln - len(l), rn - len(r), ln, rn))
        except (OverflowError, ZeroDivisionError, IndexError):
            continue
        req = {'op': 'suffix_internals', 'l': l, 'r': r, 'hmax': hmax, 'probe': probe, 'left': left, 'right': right,
               'lp': ln - len(l), 'rp': rn - len(r), 'ln': ln, 'rn': rn}
        req.update(fcfg(m, t, ts))
        cases.append((req, {'ok': {'est': est, 'partition': part, 'filter_suffix': fs}}, 'suffix_int'))
    return cases


def norm_suffix_int(resp, realr):
    if 'ok' in resp and realr['ok']['partition'] is None:
        resp['ok']['partition'] = None
    return resp


# ------------------------------------------------------------------ split_table / missing pairs / strings
def suite_split(rng, n, stats):
    cases = []
    for _ in range(n):
        ln = rng.choice([rng.randint(0, 40), rng.randint(0, 2000)])
        k = rng.randint(1, max(1, min(ln, 40))) if rng.random() < 0.8 else rng.randint(1, 50)
        sp = GH.split_table(list(range(ln)), k)
        cases.append(({'op': 'split_table', 'len': ln, 'k': k}, {'ok': [list(x) for x in sp]}, None))
        nj = rng.choice([1, 2, 3, 5, -1, -2, -15, -16, -17, 0, 100])
        n_jobs = min(GH.get_num_processes_to_launch(nj), ln)
        ch = [list(range(ln))] if n_jobs <= 1 else [list(x) for x in GH.split_table(list(range(ln)), n_jobs)]
        cases.append(({'op': 'chunks_for', 'len': ln, 'n_jobs': nj, 'cpu': common.CPU}, {'ok': ch}, None))
        stats.hit('split.k>len' if k > ln else 'split.k<=len')
    return cases


def suite_strings(rng, n, stats):
    cases = []
    lv = Levenshtein()
    for _ in range(n):
        # 'а' is CYRILLIC U+0430, whose low byte is that of '0' (known finding K8), '我'/'刑' U+6211/U+5211 likewise
        alpha = rng.choice(['ab', 'abc', 'abcdé', 'a', 'ab', 'abc', 'a0а', '我刑ab'])
        a = ''.join(rng.choice(alpha) for _ in range(rng.randint(0, 9)))
        b = ''.join(rng.choice(alpha) for _ in range(rng.randint(0, 9)))
        cases.append(({'op': 'lev', 'a': a, 'b': b}, {'ok': int(lv.get_raw_score(a, b))}, None))
        q = rng.randint(1, 4)
        pad = rng.random() < 0.5
        tk = QgramTokenizer(qval=q, padding=pad)
        cases.append(({'op': 'qgrams', 's': a, 'q': q, 'pad': pad}, {'ok': tk.tokenize(a)}, None))
    return cases


# generate inputs on which the BODY of an entry point raises (non-string join values, '_id' column clash)
BODY_ERRORS = _os.environ.get('SSJ_GEN_BODY_ERRORS', '1') == '1'


def gen_join_frames(rng, ts, stats, missing=None, big=False, str_dtype=None, nonstring=True):
    if str_dtype is None:
        str_dtype = rng.random() < 0.15
    if str_dtype is True:
        # pandas has two string dtypes: 'str' (NaN-backed, the default of pandas 3) and 'string' (pd.NA-backed)
        str_dtype = rng.choice(['str', 'str', 'string'])
    stats.hit('frames.dtype.' + (str_dtype if str_dtype else 'object'))
    nl, nr = rng.randint(0, 8), rng.randint(0, 8)
    mp = rng.choice([0.0, 0.0, 0.2, 0.5]) if missing is None else missing
    allv = gen_strings_for(rng, ts, nl + nr, big=big, missing_p=mp)
    lv, rv = allv[:nl], allv[nl:]
    if BODY_ERRORS and nonstring and not str_dtype and rng.random() < 0.04:
        # a present join value that is not a string (object column): the tokenizer raises TypeError inside the body
        side = lv if (rng.random() < 0.5 and lv) else rv
        if side:
            side[rng.randrange(len(side))] = rng.choice([5, 2.5, True, 0])
            stats.hit('frames.nonstring_value')
    if nr >= 2 and rng.random() < 0.15:
        # the same join string in two right records (their other attributes differ): whatever is remembered per STRING
        # must not leak from one record to the other
        i, j = rng.sample(range(nr), 2)
        rv[j] = rv[i]
        stats.hit('frames.duplicate_right_string')
    if rng.random() < 0.03:
        lv = [None] * nl
    if rng.random() < 0.03:
        rv = [np.nan] * nr
    pat = ('L' if any(is_missing(v) for v in lv) else '') + ('R' if any(is_missing(v) for v in rv) else '')
    stats.hit('frames.missing.' + (pat or 'none'))
    lname, rname = rng.choice([('attr', 'attr'), ('name', 'title'), ('a b', 'c')])
    lkey, rkey = rng.choice([('id', 'id'), ('lid', 'rid')])
    L = make_frame(rng, lv, attr=lname, key=lkey, str_dtype=str_dtype)
    c = rng.random()
    if c < 0.10 and nl > 0:
        # a self-join: the SAME DataFrame object as left and right table — on one column (de-duplication) or matching one
        # column against another (name against alias)
        if c < 0.03:
            stats.hit('frames.self_join.same_column')
            return L, L, lkey, lkey, lname, lname
        other = (rv + lv)[:nl]
        L['alias'] = pd.Series(other, dtype=str_dtype if str_dtype else object, index=L.index)
        stats.hit('frames.self_join.other_column')
        return L, L, lkey, lkey, lname, 'alias'
    R = make_frame(rng, rv, attr=rname, key=rkey, str_dtype=str_dtype)
    if rng.random() < 0.15:
        # a table keyed by the very column that is joined / matched (a reference list keyed by the name): possible when
        # its values are distinct and none is missing; on one side or on both
        def keyable(T, a):
            return len(T) > 0 and str(T[a].dtype) == 'object' and not T[a].isnull().any() and T[a].is_unique and all(isinstance(x, str) for x in T[a])
        side = rng.choice(['L', 'L', 'R', 'both'])
        if side in ('L', 'both') and keyable(L, lname):
            lkey = lname
            stats.hit('frames.key_is_join_attr.left')
        if side in ('R', 'both') and keyable(R, rname):
            rkey = rname
            stats.hit('frames.key_is_join_attr.right')
    return L, R, lkey, rkey, lname, rname


def suite_missing_pairs(rng, n, stats):
    cases = []
    ts = TokSpec('ws')
    for _ in range(n):
        # string-or-missing join values only: a non-string value next to None in a projected column is re-typed by pandas'
        # dtype inference (0 -> 0.0), which is not the library's doing
        L, R, lk, rk, la, ra = gen_join_frames(rng, ts, stats, missing=rng.choice([0.0, 0.3, 0.6]), nonstring=False)
        lo, ro = choose_out_attrs(rng, L, lk, la), choose_out_attrs(rng, R, rk, ra)
        lo2, ro2 = GH.remove_redundant_attrs(lo, lk), GH.remove_redundant_attrs(ro, rk)
        oss = rng.random() < 0.5
        try:
            out = get_pairs_with_missing_value(L, R, lk, rk, la, ra, lo2, ro2, 'l_', 'r_', oss, False)
            exp = {'ok': {'columns': [str(c) for c in out.columns],
                          'rows': [[cell(x) for x in row] for row in out.itertuples(index=False, name=None)]}}
        except Exception as e:   # noqa: BLE001
            exp = {'err': err_name(e)}
        req = {'op': 'missing_pairs', 'ltable': frame(L), 'rtable': frame(R), 'l_key': lk, 'r_key': rk, 'l_attr': la, 'r_attr': ra,
               'l_out': lo2, 'r_out': ro2, 'out_sim_score': oss}
        cases.append((req, exp, None))
    return cases


# ------------------------------------------------------------------ entry level: joins
JOINS = {'jaccard': jaccard_join_py, 'cosine': cosine_join_py, 'dice': dice_join_py,
         'overlap_coefficient': overlap_coefficient_join_py, 'overlap': overlap_join_py,
         'edit_distance': edit_distance_join_py}
PUBLIC = {'jaccard': ssj.jaccard_join, 'cosine': ssj.cosine_join, 'dice': ssj.dice_join,
          'overlap_coefficient': ssj.overlap_coefficient_join, 'overlap': ssj.overlap_join,
          'edit_distance': ssj.edit_distance_join}
UNORDERED_JOINS = {'edit_distance'}     # candidates come out of a Python `set`


def call_join(which, L, R, lk, rk, la, ra, ts, t, kw, public=False):
    fn = (PUBLIC if public else JOINS)[which]
    kw = dict(kw)
    kw.pop('show_progress', None)
    kw.update(progress_kw(which, len(L) if hasattr(L, '__len__') else 0, len(R) if hasattr(R, '__len__') else 0, str(t), sorted(kw.items(), key=str)))
    with quiet():
        if which == 'edit_distance':
            return fn(L, R, lk, rk, la, ra, t, tokenizer=ts.obj, **kw)
        return fn(L, R, lk, rk, la, ra, ts.obj, t, **kw)


def gen_join_case(rng, stats, which=None, n_jobs_choices=(1, 1, 1, 2, 3, -1, 50), str_dtype=None):
    which = which or rng.choice(list(JOINS))
    ts = gen_tokenizer(rng, qgram=True if which == 'edit_distance' else None)
    big = rng.random() < 0.25
    L, R, lk, rk, la, ra = gen_join_frames(rng, ts, stats, big=big, str_dtype=str_dtype)
    if which == 'edit_distance':
        t = rng.choice([0, 1, 1, 2, 2, 3, 1.5, 2.0])
        op = rng.choice(['<=', '<=', '<', '='])
    elif which == 'overlap':
        t = rng.randint(1, 4) if rng.random() < 0.8 else rng.choice([0.5, 1.5, 2.5, 2.0])
        op = rng.choice(['>=', '>=', '>', '='])
    else:
        t, cls = gen_threshold(rng)
        stats.hit('join.threshold.' + cls)
        op = rng.choice(['>=', '>=', '>', '='])
    kw = {'comp_op': op, 'allow_missing': rng.random() < 0.4,
          'l_out_attrs': choose_out_attrs(rng, L, lk, la), 'r_out_attrs': choose_out_attrs(rng, R, rk, ra),
          'out_sim_score': rng.random() < 0.7, 'n_jobs': rng.choice(n_jobs_choices)}
    if rng.random() < 0.2:
        kw['l_out_prefix'], kw['r_out_prefix'] = 'left.', 'R_'
    elif BODY_ERRORS and rng.random() < 0.05:
        # output column names that collide: '_' + 'id' = '_id' makes the final insert('_id') raise ValueError;
        # equal names on both sides are accepted by pandas
        kw['l_out_prefix'], kw['r_out_prefix'] = rng.choice([('_', 'r_'), ('l_', '_'), ('', ''), ('p_', 'p_')])
        stats.hit('join.prefix_clash.%s|%s' % (kw['l_out_prefix'], kw['r_out_prefix']))
    if which not in ('overlap', 'edit_distance'):
        kw['allow_empty'] = rng.random() < 0.6
    stats.hit('join.which.' + which)
    stats.hit('join.n_jobs.%s' % kw['n_jobs'])
    return which, ts, L, R, lk, rk, la, ra, t, kw


def join_request(which, ts, L, R, lk, rk, la, ra, t, kw):
    toks = ts.table(strings_of(L[la] if isinstance(L, pd.DataFrame) and la in L.columns else [],
                               R[ra] if isinstance(R, pd.DataFrame) and ra in R.columns else []))
    req = {'op': 'join', 'which': which, 'ltable': frame(L), 'rtable': frame(R), 'l_key': lk, 'r_key': rk,
           'l_attr': la, 'r_attr': ra, 'threshold': pyv(t), 'tokenizer': ts.describe() if isinstance(ts, TokSpec) else ts,
           'toks': toks, 'cpu': common.CPU,
           'comp_op': kw.get('comp_op', '>=' if which != 'edit_distance' else '<='),
           'allow_empty': kw.get('allow_empty', True), 'allow_missing': kw.get('allow_missing', False),
           'l_out': kw.get('l_out_attrs'), 'r_out': kw.get('r_out_attrs'),
           'l_pre': kw.get('l_out_prefix', 'l_'), 'r_pre': kw.get('r_out_prefix', 'r_'),
           'out_sim_score': kw.get('out_sim_score', True), 'n_jobs': kw.get('n_jobs', 1)}
    return req


def real_join(which, ts, L, R, lk, rk, la, ra, t, kw, public=False):
    try:
        out = call_join(which, L, R, lk, rk, la, ra, ts, t, kw, public)
        res = {'ok': out_frame(out)}
    except Exception as e:   # noqa: BLE001
        res = {'err': err_name(e)}
    res['flag'] = bool(ts.obj.get_return_set())
    return res


def serial_kw(kw):
    """in the quick tier the chunked code path runs in-process: joblib is replaced by a serial map
    (workers share nothing and results come back in job order — joblib's contract)"""
    return kw


def suite_join(rng, n, stats, which=None, public_p=0.2, **gk):
    cases = []
    for _ in range(n):
        w, ts, L, R, lk, rk, la, ra, t, kw = gen_join_case(rng, stats, which, **gk)
        req = join_request(w, ts, L, R, lk, rk, la, ra, t, kw)
        public = rng.random() < public_p
        exp = real_join(w, ts, L, R, lk, rk, la, ra, t, kw, public)
        if 'ok' in exp:
            stats.hit('join.rows', len(exp['ok']['rows']))
            stats.hit('join.nonempty' if exp['ok']['rows'] else 'join.empty_result')
        else:
            stats.hit('join.err.' + exp['err'])
        cases.append((req, exp, 'multiset' if w in UNORDERED_JOINS else None))
    return cases


def norm_multiset(resp):
    if 'ok' in resp and isinstance(resp['ok'], dict) and 'rows' in resp['ok']:
        r = dict(resp)
        r['ok'] = sort_rows(resp['ok'])
        return r
    return resp


# ------------------------------------------------------------------ entry level: filter_tables / candset / matcher
def gen_filter(rng, ts, kind, stats):
    am = rng.random() < 0.3
    if kind == 'overlap':
        size = rng.randint(1, 3) if rng.random() < 0.75 else rng.choice([0.5, 1.5, 2.5, 2.0])
        op = rng.choice(['>=', '>', '='])
        f = OverlapFilter(ts.obj, size, op, am)
        d = {'kind': 'overlap', 'overlap_size': pyv(size), 'comp_op': op, 'allow_missing': am}
        return f, d
    m, t, cls = gen_measure_threshold(rng, ts)
    ae = rng.random() < 0.6
    mname = m
    if rng.random() < 0.15:
        mname = rng.choice([m.lower(), m.capitalize()])      # measure names are case-insensitive ('jaccard', 'Edit_distance')
        stats.hit('filter.measure_name_case')
    f = FILTERS[kind](ts.obj, mname, t, ae, am)
    d = {'kind': kind, 'measure': m, 'threshold': pyv(t), 'allow_empty': ae, 'allow_missing': am}
    stats.hit('filter.%s.%s' % (kind, m))
    return f, d


def gen_prefixes(rng, stats, where):
    """output prefixes: the defaults mostly, otherwise the caller's own (every entry point that projects attributes takes them)"""
    if rng.random() < 0.75:
        return 'l_', 'r_'
    stats.hit(where + '.custom_prefixes')
    return rng.choice([('left.', 'R_'), ('ltable_', 'rtable_'), ('a', 'b'), ('l_', 'right ')])


def suite_filter_tables(rng, n, stats, kinds=None):
    cases = []
    prev = None
    for _ in range(n):
        if prev is not None and rng.random() < 0.2:
            # the same filter OBJECT used again on other tables: the model is a function of (tokenizer, measure, threshold,
            # flags, tables), so anything the object remembers from earlier calls shows up as a difference
            kind, ts, f, d = prev
            L, R, lk, rk, la, ra = gen_join_frames(rng, ts, stats, big=rng.random() < 0.2)
            stats.hit('filter_tables.object_reused')
        else:
            kind = rng.choice(kinds or ['size', 'prefix', 'position', 'suffix', 'overlap'])
            ts = gen_tokenizer(rng)
            L, R, lk, rk, la, ra = gen_join_frames(rng, ts, stats, big=rng.random() < 0.2)
            f, d = gen_filter(rng, ts, kind, stats)
        prev = (kind, ts, f, d)
        lo, ro = choose_out_attrs(rng, L, lk, la), choose_out_attrs(rng, R, rk, ra)
        L0, R0, la0, ra0 = L, R, la, ra
        L, R, lk, rk, la, ra, _c, _a, _b, bad = malform(rng, stats, L, R, lk, rk, la, ra)
        if rng.random() < 0.5:
            lo, bad = malform_out(rng, stats, L, lo, bad)
        else:
            ro, bad = malform_out(rng, stats, R, ro, bad)
        nj = rng.choice([1, 1, 2, 3, -1, 50])
        kw = {'l_out_attrs': lo, 'r_out_attrs': ro, 'n_jobs': nj}
        kw.update(progress_kw('filter_tables', kind, len(L) if isinstance(L, pd.DataFrame) else 0, nj, str(lo), str(ro)))
        lpre, rpre = gen_prefixes(rng, stats, 'filter_tables')
        if (lpre, rpre) != ('l_', 'r_'):
            kw['l_out_prefix'], kw['r_out_prefix'] = lpre, rpre
        oss = False
        if kind == 'overlap':
            oss = rng.random() < 0.5
            kw['out_sim_score'] = oss
        try:
            with quiet():
                out = f.filter_tables(L, R, lk, rk, la, ra, **kw)
            exp = {'ok': out_frame(out)}
            stats.hit('filter_tables.rows', len(out))
        except (OverflowError, ZeroDivisionError):
            continue
        except Exception as e:   # noqa: BLE001
            exp = {'err': err_name(e)}
        req = {'op': 'filter_tables', 'ltable': frame(L), 'rtable': frame(R), 'l_key': lk, 'r_key': rk, 'l_attr': la, 'r_attr': ra,
               'l_out': lo, 'r_out': ro, 'n_jobs': nj, 'tokenizer': ts.describe(), 'toks': ts.table(strings_of(L0[la0], R0[ra0])),
               'out_sim_score': oss, 'cpu': common.CPU, 'l_pre': lpre, 'r_pre': rpre}
        req.update(d)
        if bad:
            req['_malformed'] = bad
        cases.append((req, exp, 'multiset' if kind in ('size', 'prefix') else None))
    return cases


def gen_candset(rng, L, R, lk, rk, stats, la=None):
    pairs = [(a, b) for a in L[lk] for b in R[rk]]
    c = rng.random()
    if not pairs or c < 0.05:
        sel = []
    elif c < 0.25:
        # small relative to the tables (len(ltable) + len(rtable) >= 2 * len(candset)): apply_matcher's UNCACHED token path
        sel = rng.sample(pairs, rng.randint(1, max(1, min(len(pairs), (len(L) + len(R)) // 2))))
        stats.hit('candset.small_uncached')
    elif c < 0.5:
        sel = rng.sample(pairs, rng.randint(1, len(pairs)))
    elif c < 0.8:
        sel = [rng.choice(pairs) for _ in range(rng.randint(1, 3 * len(pairs)))]       # repeats, larger than tables
    else:
        sel = list(pairs)
        rng.shuffle(sel)
    if len(sel) > 2 and rng.random() < 0.4:
        # the order the filters emit: all pairs of one right record next to each other (left records in any order within a run)
        order = {}
        for p in sel:
            order.setdefault(json.dumps(cell(p[1]), sort_keys=True), len(order))
        sel = sorted(sel, key=lambda p: order[json.dumps(cell(p[1]), sort_keys=True)])
        stats.hit('candset.grouped_by_right_key')
        if la is not None and la in L.columns and rng.random() < 0.5:
            # within a run, the rows whose left value is missing come first (any order of the cross product is a valid candset)
            lmiss = {json.dumps(cell(k), sort_keys=True) for k, x in zip(L[lk], L[la]) if is_missing(x)}
            sel = sorted(sel, key=lambda p: (order[json.dumps(cell(p[1]), sort_keys=True)], json.dumps(cell(p[0]), sort_keys=True) not in lmiss))
            stats.hit('candset.grouped.missing_left_first')
    ids = list(range(len(sel)))
    if rng.random() < 0.3:
        ids = rng.sample(range(1000), len(sel))
    cols = {'_id': ids, 'l_' + lk: [p[0] for p in sel], 'r_' + rk: [p[1] for p in sel]}
    c = rng.random()
    if c < 0.3:
        cols['extra'] = [rng.choice(['x', None, 'y']) for _ in sel]
    elif c < 0.5:
        # an all-numeric candidate set with a float column (a `_sim_score` left over from an earlier stage)
        cols[rng.choice(['extra', '_sim_score'])] = pd.Series([rng.choice([0.5, 1.0, 2.25, float('nan')]) for _ in sel], dtype='float64')
        stats.hit('candset.float_extra')
    C = pd.DataFrame(cols)
    big_keys = any(isinstance(x, int) and not isinstance(x, bool) and abs(x) >= 2 ** 53 for col in ('l_' + lk, 'r_' + rk) for x in cols[col])
    if len(sel) and rng.random() < 0.1 and not big_keys:
        # a key column that went through a NaN / CSV / merge: ints have become floats (1.0 refers to the key 1)
        for col, key, T in (('l_' + lk, lk, L), ('r_' + rk, rk, R)):
            if str(T[key].dtype).startswith('int') and rng.random() < 0.7:
                C[col] = C[col].astype('float64')
                stats.hit('candset.float_keys')
    c = rng.random()
    if len(sel) and c < 0.3:
        C.index = rng.sample(range(5 * len(sel) + 5), len(sel))
    elif len(sel) and c < 0.55:
        # repeated labels, as produced by pd.concat of per-job results (0..a-1, 0..b-1, ...) or worse
        k = rng.randint(1, max(1, len(sel)))
        C.index = [i % k for i in range(len(sel))] if rng.random() < 0.7 else [7] * len(sel)
        stats.hit('candset.index.repeated')
    stats.hit('candset.size', len(sel))
    return C, 'l_' + lk, 'r_' + rk


def malform(rng, stats, L, R, lk, rk, la, ra, C=None, clk=None, crk=None, numeric=True):
    """with some probability turn valid arguments into ONE kind of invalid argument (C15 malformed stream);
    also applied to EMPTY candidate sets, where an early return could skip a validation"""
    if rng.random() > 0.2:
        return L, R, lk, rk, la, ra, C, clk, crk, None
    kinds = ['dup_l_key', 'numeq_l_key', 'nan_r_key', 'bad_l_attr', 'bad_r_key', 'not_frame_l'] + (['numeric_r_attr'] if numeric else [])
    if C is not None:
        kinds += ['bad_cand_key', 'not_frame_cand', 'empty_cand_dup_key', 'empty_cand_nan_key']
    k = rng.choice(kinds)
    stats.hit('malformed.' + k)
    if k in ('dup_l_key', 'empty_cand_dup_key') and len(L) >= 2:
        L = L.copy()
        L[lk] = [L[lk].iloc[0]] * len(L)
    elif k == 'numeq_l_key' and len(L) >= 2:
        # two key values that are equal as Python numbers but not identical: 1 and 1.0 (or True) — pandas' unique() merges them
        L = L.copy()
        a, b = rng.choice([(1, 1.0), (1, True), (0, False), (2.0, 2), (0.0, -0.0)])
        L[lk] = pd.Series([a, b] + ['zz%d' % i for i in range(len(L) - 2)], dtype=object, index=L.index)
    elif k in ('nan_r_key', 'empty_cand_nan_key') and len(R) >= 1:
        R = R.copy()
        R[rk] = pd.Series([None] + list(R[rk].iloc[1:]), dtype=object, index=R.index)
    elif k == 'bad_l_attr':
        la = 'no_such_attr'
    elif k == 'bad_r_key':
        rk = 'no_such_key'
    elif k == 'numeric_r_attr' and len(R) >= 1:
        R = R.copy()
        R[ra] = list(range(len(R)))
    elif k == 'not_frame_l':
        L = None
    elif k == 'bad_cand_key':
        clk = 'no_such_cand_key'
    elif k == 'not_frame_cand':
        C = [1, 2, 3]
    if k.startswith('empty_cand') and C is not None and isinstance(C, pd.DataFrame):
        C = C.iloc[0:0]
    return L, R, lk, rk, la, ra, C, clk, crk, k


def malform_out(rng, stats, T, out, bad, p=0.05):
    """C15 malformed stream for the output-attribute lists: ONE unknown name, alone or (mostly) next to names that do
    exist in the table, at any position — the list is invalid as soon as one of its names is unknown"""
    if bad is not None or not isinstance(T, pd.DataFrame) or rng.random() > p:
        return out, bad
    good = [rng.choice(list(T.columns)) for _ in range(rng.choice([0, 1, 1, 2]))]
    lst = good + ['no_such_out_attr']
    rng.shuffle(lst)
    stats.hit('malformed.bad_out_mixed' if good else 'malformed.bad_out_alone')
    return lst, 'bad_out_mixed'


def suite_filter_candset(rng, n, stats, kinds=None):
    cases = []
    for _ in range(n):
        kind = rng.choice(kinds or ['size', 'prefix', 'position', 'suffix', 'overlap'])
        ts = gen_tokenizer(rng)
        L, R, lk, rk, la, ra = gen_join_frames(rng, ts, stats)
        f, d = gen_filter(rng, ts, kind, stats)
        C, clk, crk = gen_candset(rng, L, R, lk, rk, stats)
        L0, R0, la0, ra0 = L, R, la, ra
        L, R, lk, rk, la, ra, C, clk, crk, bad = malform(rng, stats, L, R, lk, rk, la, ra, C, clk, crk)
        nj = rng.choice([1, 1, 2, 3, -1, 50])
        try:
            with quiet():
                out = f.filter_candset(C, clk, crk, L, R, lk, rk, la, ra, n_jobs=nj,
                                       **progress_kw('filter_candset', kind, len(C) if isinstance(C, pd.DataFrame) else 0, nj))
            exp = {'ok': out_frame(out)}
            stats.hit('filter_candset.kept', len(out))
            stats.hit('filter_candset.dropped', max(0, len(C) - len(out)))
        except (OverflowError, ZeroDivisionError):
            continue
        except Exception as e:   # noqa: BLE001
            exp = {'err': err_name(e)}
        req = {'op': 'filter_candset', 'candset': frame(C), 'cand_l_key': clk, 'cand_r_key': crk,
               'ltable': frame(L), 'rtable': frame(R), 'l_key': lk, 'r_key': rk, 'l_attr': la, 'r_attr': ra,
               'n_jobs': nj, 'tokenizer': ts.describe(), 'toks': ts.table(strings_of(L0[la0], R0[ra0])), 'cpu': common.CPU}
        req.update(d)
        if bad:
            req['_malformed'] = bad
        cases.append((req, exp, None))
    return cases


class Offset:
    """a similarity 'object' whose bound method is passed as sim_function"""

    def __init__(self, base, delta):
        self.base, self.delta = base, delta

    def score(self, a, b):
        return self.base(a, b) + self.delta


def suite_apply_matcher(rng, n, stats):
    cases = []
    for _ in range(n):
        use_tok = rng.random() < 0.75
        ts = gen_tokenizer(rng) if use_tok else None
        ts_gen = ts or TokSpec('ws')
        # without a tokenizer the raw values go to the (user's) similarity function: what it does with a non-string is its business
        L, R, lk, rk, la, ra = gen_join_frames(rng, ts_gen, stats, nonstring=use_tok)
        if rng.random() < 0.06 and len(L) and not L[la].isnull().any() and L[la].is_unique and str(L[la].dtype) == 'object':
            lk = la             # the match attribute is also the key attribute (unique, no missing value)
            stats.hit('apply_matcher.match_attr_is_key')
        numeric_match = (not use_tok) and lk != la and rk != ra and L is not R and rng.random() < 0.25
        if numeric_match:
            # without a tokenizer the match attributes may be of any type: years compared by |a - b| (C05: "the two referenced values")
            L, R = L.copy(), R.copy()
            if rng.random() < 0.5:
                L[la] = pd.Series([rng.randint(1990, 1996) for _ in range(len(L))], dtype='int64', index=L.index)
                R[ra] = pd.Series([rng.randint(1990, 1996) for _ in range(len(R))], dtype='int64', index=R.index)
            else:
                L[la] = pd.Series([rng.choice([1990.0, 1991.5, 1993.0, np.nan]) for _ in range(len(L))], dtype='float64', index=L.index)
                R[ra] = pd.Series([rng.choice([1990.0, 1991.5, 1993.0, np.nan]) for _ in range(len(R))], dtype='float64', index=R.index)
            stats.hit('apply_matcher.numeric_match_attr')
        C, clk, crk = gen_candset(rng, L, R, lk, rk, stats, la=la)
        L0, R0, la0, ra0 = L, R, la, ra
        L, R, lk, rk, la, ra, C, clk, crk, bad = malform(rng, stats, L, R, lk, rk, la, ra, C, clk, crk, numeric=False)
        log = []
        if use_tok:
            base = rng.choice([Jaccard().get_raw_score, Cosine().get_raw_score, Dice().get_raw_score,
                               OverlapCoefficient().get_raw_score, lambda a, b: len(set(a) & set(b)),
                               lambda a, b: len(set(a) & set(b)) > 0,                                    # a bool is a number too
                               lambda a, b: float('inf') if set(a) == set(b) else len(set(a) ^ set(b))])  # and +inf a float
        elif numeric_match:
            base = rng.choice([lambda a, b: abs(a - b), lambda a, b: a == b, lambda a, b: float(a) - float(b)])
        else:
            base = rng.choice([Levenshtein().get_raw_score, lambda a, b: float(len(a) == len(b)), lambda a, b: abs(len(a) - len(b)),
                               lambda a, b: a == b])
        if rng.random() < 0.3:
            base = Offset(base, rng.choice([0, 1, 0.25])).score

        def sim(a, b, base=base, log=log):
            v = base(a, b)
            log.append((a, b, v))
            return v
        t = rng.choice([0.3, 0.5, 0.7, 1, 1.0, 2, 0, 0.25, 1.25])
        op = rng.choice(['>=', '>', '<=', '<', '=', '!='])
        am = rng.random() < 0.4
        lo, ro = choose_out_attrs(rng, L0, lk, la0), choose_out_attrs(rng, R0, rk, ra0)
        if rng.random() < 0.5:
            lo, bad = malform_out(rng, stats, L, lo, bad)
        else:
            ro, bad = malform_out(rng, stats, R, ro, bad)
        oss = rng.random() < 0.7
        lpre, rpre = gen_prefixes(rng, stats, 'apply_matcher')
        nj = rng.choice([1, 1, 2, 3, -1, 50])
        if nj != 1:
            # quick tier runs the chunked path in-process (closures are not picklable for loky anyway)
            pass
        try:
            with quiet():
                out = apply_matcher(C, clk, crk, L, R, lk, rk, la, ra, ts.obj if ts else None, sim, t, op, am, lo, ro,
                                    lpre, rpre, oss, nj, **progress_kw('apply_matcher', len(C) if isinstance(C, pd.DataFrame) else 0, nj, op, str(t)))
            exp = {'ok': out_frame(out)}
            stats.hit('matcher.kept', len(out))
            stats.hit('matcher.cache' if (ts and bad is None and len(L) + len(R) < 2 * len(C)) else 'matcher.nocache')
        except Exception as e:   # noqa: BLE001
            exp = {'err': err_name(e)}

        def arg(a):
            return list(a) if isinstance(a, list) else cell(a)
        simtab = []
        seen = set()
        for a, b, v in log:
            k = json.dumps([arg(a), arg(b)])
            if k not in seen:
                seen.add(k)
                simtab.append([arg(a), arg(b), pyv(v)])
        req = {'op': 'apply_matcher', 'candset': frame(C), 'cand_l_key': clk, 'cand_r_key': crk,
               'ltable': frame(L), 'rtable': frame(R), 'l_key': lk, 'r_key': rk, 'l_attr': la, 'r_attr': ra,
               'threshold': pyv(t), 'comp_op': op, 'allow_missing': am, 'l_out': lo, 'r_out': ro, 'out_sim_score': oss,
               'n_jobs': nj, 'tokenizer': ts.describe() if ts else None,
               'toks': ts.table(strings_of(L0[la0], R0[ra0])) if ts else None, 'sim': simtab, 'cpu': common.CPU, 'l_pre': lpre, 'r_pre': rpre}
        if bad:
            req['_malformed'] = bad
        cases.append((req, exp, None))
    return cases


# ------------------------------------------------------------------ runner
NORMALIZERS = {'sort_sets': lambda m, r: (norm_candidates(m), norm_candidates(r)),
               'multiset': lambda m, r: (norm_multiset(m), norm_multiset(r)),
               'suffix_int': lambda m, r: (norm_suffix_int(m, r), r)}


def norm_scores(resp):
    """`_sim_score` is a numeric column: pandas stores 0 and 0.0 (and ints next to NaN) as the same
    float64 value, so int cells of that column are compared as floats"""
    fr = resp.get('ok') if isinstance(resp, dict) else None
    if isinstance(fr, dict) and 'columns' in fr and 'rows' in fr and '_sim_score' in fr['columns']:
        j = fr['columns'].index('_sim_score')
        for r in fr['rows']:
            if j < len(r) and isinstance(r[j], dict) and 'i' in r[j]:
                r[j] = {'f': f2hex(float(r[j]['i']))}
            elif j < len(r) and isinstance(r[j], dict) and r[j].get('o') in ('bool:True', 'bool:False'):
                # a bool score next to NaN (another chunk's missing pair) is stored as 1.0 / 0.0 by pandas
                r[j] = {'f': f2hex(1.0 if r[j]['o'] == 'bool:True' else 0.0)}
    return resp


DOCUMENTED_EXCEPTION = {'dup_l_key': 'AssertionError', 'numeq_l_key': 'AssertionError', 'nan_r_key': 'AssertionError', 'bad_l_attr': 'AssertionError', 'bad_r_key': 'AssertionError',
                        'numeric_r_attr': 'AssertionError', 'not_frame_l': 'TypeError', 'bad_cand_key': 'AssertionError', 'not_frame_cand': 'TypeError',
                        'empty_cand_dup_key': 'AssertionError', 'empty_cand_nan_key': 'AssertionError', 'bad_out_mixed': 'AssertionError'}


def malformed_accepted(cases):
    """C15 on the malformed stream, independently of the model: a request into which ONE documented precondition
    violation was injected must raise the documented exception class.  Returns violations (dicts)."""
    out = []
    for req, realr, _ in cases:
        k = req.get('_malformed')
        if not k:
            continue
        # the malformation may have been impossible to inject (too few rows): then the request is still valid
        if k in ('dup_l_key', 'numeq_l_key', 'empty_cand_dup_key') and len((req.get('ltable') or {}).get('rows', [])) < 2:
            continue
        if k in ('nan_r_key', 'empty_cand_nan_key', 'numeric_r_attr') and len((req.get('rtable') or {}).get('rows', [])) < 1:
            continue
        want = DOCUMENTED_EXCEPTION[k]
        got = realr.get('err') if isinstance(realr, dict) else None
        if got != want:
            out.append({'property': 'C15', 'what': 'invalid argument (%s) given to %s: expected %s, got %s' % (k, req.get('op'), want, got or 'a result'),
                        'case': {'entry': 'malformed-request', 'request': req}, 'expected': want, 'actual': got})
    return out


def retype_numeric_columns(x):
    """A result column holding only numbers and missing values is stored by pandas as float64 (its dtype inference over the
    list of output rows): the int 0 comes back as 0.0.  That is pandas' doing, not the library's — in such columns ints are
    compared as the floats they become (on both sides)."""
    if isinstance(x, dict):
        if 'columns' in x and 'rows' in x and isinstance(x['rows'], list) and x['rows'] and all(isinstance(r, list) for r in x['rows']):
            rows = [list(r) for r in x['rows']]
            width = min(len(r) for r in rows)
            for j in range(width):
                col = [r[j] for r in rows]
                if any(c is None for c in col) and all(c is None or (isinstance(c, dict) and ('i' in c or 'f' in c)) for c in col):
                    for r in rows:
                        if isinstance(r[j], dict) and 'i' in r[j]:
                            r[j] = {'f': f2hex(float(r[j]['i']))}
            x = dict(x, rows=rows)
        return {k: (retype_numeric_columns(v) if k != 'rows' else v) for k, v in x.items()}
    if isinstance(x, list):
        return [retype_numeric_columns(v) for v in x]
    return x


def strip_result_index(x):
    if isinstance(x, dict):
        return {k: strip_result_index(v) for k, v in x.items() if not (k == 'index' and 'columns' in x and 'rows' in x)}
    if isinstance(x, list):
        return [strip_result_index(v) for v in x]
    return x


def strip_converted_dtype(x):
    if isinstance(x, dict):
        return {k: strip_converted_dtype(v) for k, v in x.items() if not (k == 'dtype' and 'values' in x)}
    if isinstance(x, list):
        return [strip_converted_dtype(v) for v in x]
    return x


def run_cases(cases):
    """returns (n_cases, mismatches) where a mismatch is dict(request, model, real)"""
    if not cases:
        return 0, []
    resps = run_driver([c[0] for c in cases])
    bad = []
    for (req, realr, meta), m in zip(cases, resps):
        if 'fail' in m:
            bad.append({'request': req, 'model': m, 'real': realr, 'kind': 'driver-failure'})
            continue
        mm, rr = norm_scores(copy.deepcopy(m)), norm_scores(copy.deepcopy(realr))
        mm, rr = retype_numeric_columns(mm), retype_numeric_columns(rr)      # before any sorting of rows
        if meta in NORMALIZERS:
            mm, rr = NORMALIZERS[meta](mm, rr)
        if req.get('op') != 'filter_candset':
            # the row labels of a RESULT are promised only for filter_candset (C06: "same columns, order and index labels");
            # no property mentions the index of what a join, filter_tables or apply_matcher returns
            mm, rr = strip_result_index(mm), strip_result_index(rr)
        if isinstance(meta, str) and meta.startswith('converter:') and meta.split(':')[2] not in ('object', 'str', 'empty_object'):
            # C16 fixes the VALUES of a converted numeric column, not the dtype pandas stores the strings in
            # (string columns are "returned unchanged": there the dtype is compared)
            mm, rr = strip_converted_dtype(mm), strip_converted_dtype(rr)
        if json.dumps(mm, sort_keys=True) != json.dumps(rr, sort_keys=True):
            bad.append({'request': req, 'model': mm, 'real': rr, 'kind': 'mismatch'})
    return len(cases), bad


SUITES = {
    'gen': suite_gen, 'f64': suite_f64, 'ordering': suite_ordering, 'index': suite_index,
    'candidates': suite_candidates, 'filter_pair': suite_filter_pair, 'suffix_internals': suite_suffix_internals,
    'split': suite_split, 'strings': suite_strings, 'missing_pairs': suite_missing_pairs,
    'join': suite_join, 'filter_tables': suite_filter_tables, 'filter_candset': suite_filter_candset,
    'apply_matcher': suite_apply_matcher,
}



# ------------------------------------------------------------------ converter / profiler / sessions
from py_stringsimjoin.utils.converter import series_to_str, dataframe_column_to_str    # noqa: E402
from py_stringsimjoin.profiler.profiler import profile_table_for_join                  # noqa: E402


def gen_column(rng, stats):
    kind = rng.choice(['int', 'float_int', 'float', 'object', 'str', 'float_allnan', 'empty_float', 'empty_object', 'bool', 'float_inf', 'float32', 'nullable'])
    n = rng.randint(1, 8)
    nan_p = rng.choice([0.0, 0.3, 0.7])
    if kind == 'int':
        if rng.random() < 0.4:
            # integer columns of any width / signedness are int columns (as float32 columns are float columns)
            dt = rng.choice(['int8', 'int16', 'int32', 'uint8', 'uint16', 'uint32', 'uint64'])
            s = pd.Series([rng.randint(0 if dt.startswith('u') else -50, 100) for _ in range(n)], dtype=dt)
            stats.hit('converter.int_width.' + dt)
        else:
            s = pd.Series([rng.randint(-50, 10 ** rng.randint(1, 12)) for _ in range(n)], dtype='int64')
    elif kind == 'float_int':
        s = pd.Series([np.nan if rng.random() < nan_p else float(rng.randint(-5, 10 ** rng.randint(1, 9))) for _ in range(n)], dtype='float64')
        if rng.random() < 0.12:
            # a column whose present values are all zero (a falsy Series.any())
            s = pd.Series([np.nan if rng.random() < nan_p else 0.0 for _ in range(n)], dtype='float64')
            stats.hit('converter.float_int.all_zero')
        elif rng.random() < 0.25:
            # whole numbers beyond the int64 range (20-digit identifiers read as floats): Python's int() is unbounded
            s.iloc[rng.randrange(n)] = rng.choice([1e20, 2.0 ** 63, -2.0 ** 64, 1e22, 12345678901234567168.0, 2.0 ** 53, -9.3e18])
            stats.hit('converter.float_int.beyond_int64')
    elif kind == 'float':
        s = pd.Series([np.nan if rng.random() < nan_p else rng.choice([1.5, 2.0, 0.1, 1e-7, 123456.789, 1e16, -3.25, 7.0]) for _ in range(n)],
                      dtype='float64')
    elif kind == 'nullable':
        # pandas' nullable extension dtypes (known finding K9: the converter cannot interpret them)
        dt = rng.choice(['Int64', 'UInt8', 'Float64'])
        s = pd.Series([None if rng.random() < nan_p else rng.randint(0, 200) for _ in range(n)], dtype=dt)
    elif kind == 'float32':
        # narrower float dtypes are float columns too (values exactly representable in float16)
        s = pd.Series([np.nan if rng.random() < nan_p else rng.choice([1.5, 2.0, 0.25, -3.0, 7.0, 1024.0]) for _ in range(n)],
                      dtype=rng.choice(['float32', 'float16']))
    elif kind == 'float_inf':
        # infinities: never "integral", printed as 'inf' / '-inf'
        pool = rng.choice([[1.0, 2.0, float('inf'), float('-inf')], [1.0, 2.0, 1.5, -3.25, 1e16, float('inf'), float('-inf'), 0.0, 7.0, 1e-7]])
        s = pd.Series([np.nan if rng.random() < nan_p else rng.choice(pool) for _ in range(n)], dtype='float64')
    elif kind == 'object':
        s = pd.Series([None if rng.random() < nan_p else rng.choice(['a', 'b c', '', '12']) for _ in range(n)], dtype=object)
    elif kind == 'str':
        s = pd.Series([None if rng.random() < nan_p else rng.choice(['a', 'b c', '', '12']) for _ in range(n)], dtype=rng.choice(['str', 'str', 'string']))
    elif kind == 'float_allnan':
        s = pd.Series([np.nan] * n, dtype='float64')
    elif kind == 'empty_float':
        s = pd.Series([], dtype='float64')
    elif kind == 'empty_object':
        s = pd.Series([], dtype=object)
    else:
        s = pd.Series([rng.random() < 0.5 for _ in range(n)], dtype=bool)
    stats.hit('converter.kind.' + kind)
    # arbitrary (non-default, unordered) row labels: the conversion must not depend on them nor change them
    c = rng.random()
    if len(s) > 1 and c < 0.15:
        k = rng.randint(1, len(s) - 1)
        s.index = [i % k for i in range(len(s))]          # repeated labels (pd.concat of parts): labels do not identify rows
        stats.hit('converter.index.repeated')
    elif len(s) and c < 0.65:
        s.index = rng.sample(range(-5, 5 * len(s) + 5), len(s))
        stats.hit('converter.index.custom')
    return s, kind


def col_json(s):
    return {'dtype': dtype_tag(s.dtype), 'values': [cell(v) for v in s]}


def suite_converter(rng, n, stats):
    cases = []
    for _ in range(n):
        s, kind = gen_column(rng, stats)
        before = col_json(s)
        reprs = {f2hex(v): str(v) for v in s if isinstance(v, float) and not math.isnan(v) and not math.isinf(v)}
        mode = rng.choice(['series', 'frame'])
        inplace = rng.random() < 0.4
        return_col = rng.random() < 0.35
        req = {'op': 'converter', 'mode': mode, 'dtype': before['dtype'], 'values': before['values'], 'repr': reprs,
               'inplace': inplace, 'return_col': return_col}
        try:
            if mode == 'series':
                res = series_to_str(s, inplace)
                holder = s
            else:
                df = pd.DataFrame({'k': range(len(s)), 'c': s})
                res = dataframe_column_to_str(df, 'c', inplace, return_col)
                holder = df['c']
            labels = list(s.index)
            if res is True:
                exp = {'ok': {'ret': 'True', 'after': col_json(holder)}}
                if list(holder.index) != labels:
                    exp['labels_changed'] = True
            elif isinstance(res, pd.Series):
                exp = {'ok': {'ret': 'col', 'col': col_json(res)}}
                if col_json(holder) != before or list(holder.index) != labels:
                    exp['input_mutated'] = True
                if list(res.index) != labels:
                    exp['labels_changed'] = True
            elif isinstance(res, pd.DataFrame):
                exp = {'ok': {'ret': 'frame', 'col': col_json(res['c'])}}
                if col_json(holder) != before or list(res.columns) != ['k', 'c'] or list(res['k']) != list(range(len(s))):
                    exp['input_mutated'] = True
                if list(res.index) != labels or list(holder.index) != labels:
                    exp['labels_changed'] = True
            else:
                exp = {'ok': {'ret': repr(res)}}
        except Exception as e:   # noqa: BLE001
            exp = {'err': err_name(e)}
            req['_real_err_msg'] = str(e)[:160]       # not compared (the model has no messages); read by the known-finding matcher
        stats.hit('converter.mode.%s.%s' % (mode, 'inplace' if inplace else ('return_col' if return_col else 'copy')))
        cases.append((req, exp, 'converter:%s:%s:%s' % (mode, kind, inplace)))
    return cases


MIXED_POOL = [0, 1, 2, True, False, 0.0, 1.0, 2.0, 1.5, 2 ** 53, 2 ** 53 + 1, float(2 ** 53), 2 ** 63, float(2 ** 63),
              float('inf'), float('-inf'), '1', 'True', '', '1.0', 'inf', None, float('nan'), np.int64(1), np.float64(1.0),
              np.bool_(True), np.bool_(False), np.float32(1.0), 0.1, 10 ** 30, 1e30, -1, -1.0]


def gen_profile_frame(rng, stats, big=False):
    n = rng.randint(1, 12) if not big else rng.choice([20000, 20001, 25000, 40003])
    if not big and rng.random() < 0.15:
        n = rng.randint(13, 3000)          # more rows: percentages with many different two-decimal values
    cols = {}
    for i in range(rng.randint(1, 4)):
        kind = rng.choice(['key', 'dups', 'missing', 'onedup', 'onemissing', 'float', 'mixednone', 'mixedtypes', 'mixedtypes', 'percent', 'nullable'])
        if kind == 'nullable' and not big:
            # pandas' nullable extension dtypes hold pd.NA although their dtype.kind is that of an integer / boolean column
            dt = rng.choice(['Int64', 'UInt8', 'boolean', 'Int32', 'string'])
            pool = {'boolean': [True, False], 'string': ['a', 'b', 'c d']}.get(dt, list(range(0, 6)))
            cols['c%d' % i] = pd.Series([None if rng.random() < 0.3 else rng.choice(pool) for _ in range(n)], dtype=dt)
            stats.hit('profiler.col.nullable.' + dt)
            continue
        if kind == 'key':
            v = list(range(n))
        elif kind == 'dups':
            v = [rng.randint(0, max(1, n // 2)) for _ in range(n)]
        elif kind == 'missing':
            v = [None if rng.random() < 0.3 else 's%d' % rng.randint(0, n) for _ in range(n)]
        elif kind == 'onedup':
            v = list(range(n))
            if n > 1:
                v[rng.randrange(1, n)] = v[0]
        elif kind == 'onemissing':
            v = ['s%d' % j for j in range(n)]
            v[rng.randrange(n)] = None
        elif kind == 'float':
            v = [np.nan if rng.random() < 0.2 else rng.choice([1.5, 2.5, 3.25, 4.0]) for _ in range(n)]
        elif kind == 'mixedtypes' and not big:
            # values of different Python types that pandas' unique() identifies (1 == 1.0 == True) or keeps apart ('1' vs 1)
            v = [rng.choice(MIXED_POOL) for _ in range(n)]
        elif kind == 'percent' and not big:
            # k missing values out of m rows: the two-decimal percentage strings
            k0 = rng.randint(0, n)
            v = [None] * k0 + ['s%d' % j for j in range(n - k0)]
            rng.shuffle(v)
        else:
            v = [rng.choice([None, np.nan, 'a', 'b']) for _ in range(n)]
        stats.hit('profiler.col.' + kind)
        as_object = kind in ('missing', 'onemissing', 'mixednone', 'percent') or (kind == 'mixedtypes' and rng.random() < 0.6)
        try:
            cols['c%d' % i] = pd.Series(v, dtype=object if as_object else None)
        except (OverflowError, TypeError, ValueError):
            cols['c%d' % i] = pd.Series(v, dtype=object)
    return pd.DataFrame(cols)


def suite_profiler(rng, n, stats, n_big=1):
    cases = []
    for k in range(n + n_big):
        df = gen_profile_frame(rng, stats, big=(k >= n))
        attrs = None if rng.random() < 0.5 else rng.sample(list(df.columns), rng.randint(1, len(df.columns)))
        use = list(df.columns) if attrs is None else attrs
        # table-level request (order of attributes, argument validation, empty table)
        if len(df) < 100:
            t_arg, a_arg = df, attrs
            c = rng.random()
            if c < 0.08:
                t_arg = [1, 2]
            elif c < 0.16:
                a_arg = (attrs or []) + ['no_such_attr']
            elif c < 0.22:
                t_arg = df.iloc[0:0]
            elif c < 0.30:
                a_arg = []          # explicitly empty attribute list: no rows, not "all columns"
            elif c < 0.34:
                t_arg, a_arg = df.iloc[0:0], []
            try:
                o2 = profile_table_for_join(t_arg, a_arg)
                e2 = {'ok': [[str(a), str(o2.loc[a, 'Unique values']), str(o2.loc[a, 'Missing values']), str(o2.loc[a, 'Comments'])] for a in o2.index]}
            except Exception as e:   # noqa: BLE001
                e2 = {'err': err_name(e)}
            cases.append(({'op': 'profile_table', 'table': frame(t_arg), 'attrs': a_arg}, e2, None))
        try:
            out = profile_table_for_join(df, attrs)
            exp = {'ok': [[str(out.loc[a, 'Unique values']), str(out.loc[a, 'Missing values']), str(out.loc[a, 'Comments'])] for a in use]}
            if list(out.index) != use or list(out.columns) != ['Unique values', 'Missing values', 'Comments']:
                exp['shape'] = [list(map(str, out.index)), list(map(str, out.columns))]
        except Exception as e:   # noqa: BLE001
            exp = {'err': err_name(e)}
        req = {'op': 'profiler', 'cols': [[cell(v) for v in df[a]] for a in use]}
        stats.hit('profiler.rows.%s' % ('big' if len(df) >= 20000 else 'small'))
        cases.append((req, exp, None))
    return cases


def suite_session(rng, n, stats):
    """histories of join calls sharing tokenizer objects and frames"""
    cases = []
    for _ in range(n):
        toks = [gen_tokenizer(rng, qgram=True), gen_tokenizer(rng, qgram=rng.random() < 0.3)]
        flags0 = [bool(t.obj.get_return_set()) for t in toks]
        ts_gen = toks[0]
        L, R, lk, rk, la, ra = gen_join_frames(rng, ts_gen, stats)
        calls, outs = [], []
        for _ in range(rng.randint(2, 7)):
            tid = rng.randrange(2)
            ts = toks[tid]
            which = rng.choice(list(JOINS) if ts.kind == 'qgram' else [w for w in JOINS if w != 'edit_distance'])
            if which == 'edit_distance':
                t = rng.choice([0, 1, 2, -1])
                op = rng.choice(['<=', '<', '=', '>='])
            elif which == 'overlap':
                t = rng.choice([1, 2, 0])
                op = rng.choice(['>=', '>', '=', '<'])
            else:
                t = rng.choice([0.3, 0.5, 0.8, 1.0, 0, 1.5])
                op = rng.choice(['>=', '>', '=', '<='])
            kw = {'comp_op': op, 'allow_missing': rng.random() < 0.3, 'out_sim_score': rng.random() < 0.7, 'n_jobs': rng.choice([1, 2])}
            LL = L if rng.random() > 0.05 else None
            req = join_request(which, ts, LL, R, lk, rk, la, ra, t, kw)
            req['tok_id'] = tid
            req.pop('op')
            o = real_join(which, ts, LL, R, lk, rk, la, ra, t, kw)
            calls.append(req)
            outs.append(o)
            stats.hit('session.call.' + which)
            stats.hit('session.outcome.' + ('ok' if 'ok' in o else o['err']))
        exp = {'ok': {'flags': [bool(t.obj.get_return_set()) for t in toks], 'outcomes': outs}}
        cases.append(({'op': 'session', 'flags': flags0, 'calls': calls, 'cpu': common.CPU}, exp, 'session'))
    return cases


def norm_session(m, r):
    for resp in (m, r):
        if 'ok' in resp:
            outs = resp['ok']['outcomes']
            for i, o in enumerate(outs):
                o = norm_scores(o)
                if 'ok' in o:
                    o = dict(o)
                    o['ok'] = sort_rows(o['ok'])
                outs[i] = o
    return m, r


NORMALIZERS['session'] = norm_session
SUITES.update({'converter': suite_converter, 'profiler': suite_profiler, 'session': suite_session})


def suite_spec(rng, n, stats):
    """the Lean SPEC (Spec.simSet / score4 / qualStrict / qualRounded / ovcScore) against py_stringmatching on sets"""
    import operator
    OPS = {'>=': operator.ge, '>': operator.gt, '=': operator.eq}
    fns = {'JACCARD': Jaccard().get_raw_score, 'COSINE': Cosine().get_raw_score, 'DICE': Dice().get_raw_score}
    cases = []
    for _ in range(n):
        uni = Universe(rng, size=rng.randint(2, 30))
        a = uni.sample_set(rng.randint(0, 12))
        b = list(a) if rng.random() < 0.15 else uni.sample_set(rng.randint(0, 12))
        rng.shuffle(b)
        m = rng.choice(list(fns))
        t, _ = gen_threshold(rng)
        op = rng.choice(list(OPS))
        raw = fns[m](set(a), set(b))
        r4 = round(raw, 4)
        if a and b:
            ovc = OverlapCoefficient().get_raw_score(set(a), set(b))
            if set(a) == set(b):
                ovc = None
        else:
            ovc = None
        exp = {'sim': pyv(raw), 'score4': pyv(r4), 'strict': bool(OPS[op](raw, t) and OPS[op](r4, t)), 'rounded': bool(OPS[op](r4, t)),
               'both_empty': (not a and not b)}
        cases.append(({'op': 'spec_sim', 'measure': m, 'a': a, 'b': b, 'threshold': pyv(t), 'comp_op': op},
                      {'ok': exp, '_ovc': pyv(float(ovc)) if ovc is not None else None}, 'spec'))
        stats.hit('spec.measure.' + m)
    return cases


def norm_spec(m, r):
    ovc = r.pop('_ovc', None)
    if 'ok' in m:
        got = m['ok'].pop('ovc', None)
        if ovc is not None and got != ovc:
            m['ok']['ovc_mismatch'] = [got, ovc]
    return m, r


NORMALIZERS['spec'] = norm_spec
SUITES['spec'] = suite_spec


# ------------------------------------------------------------------ re-running one join request in a FRESH interpreter (C12)
def uncell(c):
    if c is None:
        return None
    if 's' in c:
        return c['s']
    if 'i' in c:
        return c['i']
    if 'f' in c:
        return hex2f(c['f'])
    if 'o' in c and c['o'].startswith('bool:'):
        return c['o'] == 'bool:True'
    return c.get('o')


def frame_of_request(fr):
    if fr is None:
        return None
    cols = {}
    for j, name in enumerate(fr['columns']):
        vals = [uncell(r[j]) for r in fr['rows']]
        dt = fr['dtypes'][j] if j < len(fr.get('dtypes', [])) else 'object'
        if dt == 'object':
            cols[name] = pd.Series(vals, dtype=object)
        elif dt == 'str':
            cols[name] = pd.Series(vals, dtype='str')
        elif dt == 'int':
            cols[name] = pd.Series(vals, dtype='int64')
        elif dt == 'float':
            cols[name] = pd.Series(vals, dtype='float64')
        else:
            cols[name] = pd.Series(vals)
    df = pd.DataFrame(cols, columns=fr['columns'])
    idx = [uncell(x) for x in fr.get('index', [])]
    if len(idx) == len(df) and idx:
        df.index = idx
    return df


def real_of_join_request(req):
    """execute the real join a 'join' request describes (tokenizer rebuilt from its description, frames from their
    canonical form) and return the canonical real answer"""
    td = req['tokenizer']
    ts = TokSpec(td['kind'], return_set=td['return_set'], qval=td.get('qval', 2), padding=td.get('padding', True), delims=td.get('delims'))
    L, R = frame_of_request(req['ltable']), frame_of_request(req['rtable'])
    t = uncell(req['threshold']) if isinstance(req['threshold'], dict) else req['threshold']
    kw = {'comp_op': req['comp_op'], 'allow_missing': req['allow_missing'], 'l_out_attrs': req['l_out'], 'r_out_attrs': req['r_out'],
          'l_out_prefix': req['l_pre'], 'r_out_prefix': req['r_pre'], 'out_sim_score': req['out_sim_score'], 'n_jobs': req['n_jobs']}
    if req['which'] not in ('overlap', 'edit_distance'):
        kw['allow_empty'] = req['allow_empty']
    return real_join(req['which'], ts, L, R, req['l_key'], req['r_key'], req['l_attr'], req['r_attr'], t, kw)



if __name__ == '__main__' and len(sys.argv) > 2 and sys.argv[1] == '--fresh-join':
    # fresh-interpreter replay of join requests: file with a JSON list of requests -> JSON list of canonical answers
    reqs = json.load(open(sys.argv[2]))
    print(json.dumps([real_of_join_request(r) for r in reqs]))
    sys.exit(0)

if __name__ == '__main__':
    import sys
    import time
    names = sys.argv[1].split(',') if len(sys.argv) > 1 else list(SUITES)
    n = int(sys.argv[2]) if len(sys.argv) > 2 else 50
    seed = int(sys.argv[3]) if len(sys.argv) > 3 else 1
    for name in names:
        rng = random.Random('%s-%d' % (name, seed))
        st = Stats()
        t0 = time.time()
        cases = SUITES[name](rng, n, st)
        t1 = time.time()
        k, bad = run_cases(cases)
        print('%-18s cases=%-6d mismatches=%-4d gen=%.1fs model=%.1fs' % (name, k, len(bad), t1 - t0, time.time() - t1))
        for b in bad[:int(_os.environ.get('SHOW', '2'))]:
            print('    MODEL', json.dumps(b['model'], ensure_ascii=False)[:int(_os.environ.get('W', '700'))])
            print('    REAL ', json.dumps(b['real'], ensure_ascii=False)[:int(_os.environ.get('W', '700'))])
            if _os.environ.get('REQ'):
                print('    REQ  ', json.dumps(b['request'], ensure_ascii=False)[:3000])

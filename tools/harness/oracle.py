"""Independent oracles: each property checked directly on the REAL code against a nested-loop /
row-wise reference that shares nothing with the Lean model.  Used (a) as spec validation on every
run and (b) as the failing-input search when a proof obligation or the correspondence breaks.

Every oracle returns a list of violations; a violation is a dict
  {'property', 'what', 'entry', 'case': <replayable description>, 'expected', 'actual'}"""
import copy
import itertools
import json
import math
import operator
import random
import re

from common import *      # noqa: F401,F403
import common
import suites as S
from suites import JOINS, PUBLIC, FILTERS, gen_tokenizer, gen_join_frames, gen_join_case, gen_strings_for, \
    gen_measure_threshold, gen_candset, call_join, gen_filter, choose_out_attrs

from py_stringmatching.similarity_measure.levenshtein import Levenshtein
from py_stringmatching.similarity_measure.jaccard import Jaccard
from py_stringmatching.similarity_measure.cosine import Cosine
from py_stringmatching.similarity_measure.dice import Dice
from py_stringmatching.similarity_measure.overlap_coefficient import OverlapCoefficient

OPS = {'>=': operator.ge, '>': operator.gt, '<=': operator.le, '<': operator.lt, '=': operator.eq, '!=': operator.ne}
SIMS = {'jaccard': Jaccard().get_raw_score, 'cosine': Cosine().get_raw_score, 'dice': Dice().get_raw_score,
        'overlap_coefficient': OverlapCoefficient().get_raw_score}
MEASURE_OF = {'jaccard': 'JACCARD', 'cosine': 'COSINE', 'dice': 'DICE'}
def LEV(a, b):
    """Levenshtein distance, own implementation (the oracle must not borrow its reference from the code under test:
    py_stringmatching 0.4.7's compiled Levenshtein compares characters modulo 256 — known finding K8)"""
    if a == b:
        return 0
    prev = list(range(len(b) + 1))
    for i, ca in enumerate(a, 1):
        cur = [i]
        for j, cb in enumerate(b, 1):
            cur.append(min(prev[j] + 1, cur[j - 1] + 1, prev[j - 1] + (ca != cb)))
        prev = cur
    return prev[-1]


LEV_REAL = Levenshtein().get_raw_score
from py_stringsimjoin.utils.converter import series_to_str, dataframe_column_to_str   # noqa: E402


# ------------------------------------------------------------------ replayable case descriptions
def frame_to_case(df):
    return None if not isinstance(df, pd.DataFrame) else {
        'columns': [str(c) for c in df.columns], 'dtypes': [str(df[c].dtype) for c in df.columns],
        'index': [x if not isinstance(x, np.generic) else x.item() for x in df.index],
        'rows': [[cell(x) for x in row] for row in df.itertuples(index=False, name=None)]}


def uncell(c):
    if c is None:
        return None
    if 's' in c:
        return c['s']
    if 'i' in c:
        return c['i']
    if 'f' in c:
        return hex2f(c['f'])
    if 'o' in c and c['o'].startswith('bool:'):
        return c['o'] == 'bool:True'
    return c.get('o')


def case_to_frame(c):
    if c is None:
        return None
    cols = {}
    for j, name in enumerate(c['columns']):
        vals = [uncell(r[j]) for r in c['rows']]
        dt = c['dtypes'][j]
        if dt == 'object':
            cols[name] = pd.Series(vals, dtype=object)
        elif dt in ('str', 'string'):
            cols[name] = pd.Series(vals, dtype='str')
        else:
            cols[name] = pd.Series(vals, dtype=dt)
    df = pd.DataFrame(cols, columns=c['columns'])
    if len(c['rows']) == len(c['index']) and c['index']:
        df.index = c['index']
    return df


def tok_to_case(ts):
    return {'kind': ts.kind, 'return_set': bool(ts.obj.get_return_set()), 'qval': ts.qval, 'padding': ts.padding, 'delims': ts.delims}


def case_to_tok(c):
    return TokSpec(c['kind'], return_set=c['return_set'], qval=c['qval'], padding=c['padding'], delims=c['delims'])


def join_case(which, ts, L, R, lk, rk, la, ra, t, kw):
    return {'entry': 'join', 'which': which, 'tokenizer': tok_to_case(ts), 'ltable': frame_to_case(L), 'rtable': frame_to_case(R),
            'l_key': lk, 'r_key': rk, 'l_attr': la, 'r_attr': ra, 'threshold': t, 'kw': kw}


def run_join_case(c):
    ts = case_to_tok(c['tokenizer'])
    L, R = case_to_frame(c['ltable']), case_to_frame(c['rtable'])
    return ts, L, R, call_join(c['which'], L, R, c['l_key'], c['r_key'], c['l_attr'], c['r_attr'], ts, c['threshold'], c['kw'])


def viol(prop, what, case, expected=None, actual=None):
    return {'property': prop, 'what': what, 'case': case, 'expected': expected, 'actual': actual}


# ------------------------------------------------------------------ reference computations
def present_rows(df, key, attr):
    return [(k, v) for k, v in zip(df[key], df[attr]) if not is_missing(v)]


def missing_keys(df, key, attr):
    return [k for k, v in zip(df[key], df[attr]) if is_missing(v)]


def set_tokens(ts, s):
    return ts.tokens(s, True)


def ref_score(which, ts, ls, rs):
    """(raw score, tokens l, tokens r) computed from the two join values alone"""
    lt, rt = set_tokens(ts, ls), set_tokens(ts, rs)
    if which == 'overlap':
        return len(set(lt) & set(rt)), lt, rt
    return SIMS[which](set(lt), set(rt)), lt, rt


def keyv(x):
    return x.item() if isinstance(x, np.generic) else x


def out_pairs(out, lcol, rcol):
    return [(keyv(a), keyv(b)) for a, b in zip(out[lcol], out[rcol])]


# ------------------------------------------------------------------ C01 / C02 / C08 / C09 / C11 on one join run
def check_setsim_run(which, ts, L, R, lk, rk, la, ra, t, kw, out, props):
    """all per-run set-similarity join properties; returns violations"""
    v = []
    case = join_case(which, ts, L, R, lk, rk, la, ra, t, kw)
    op = OPS[kw.get('comp_op', '>=')]
    lpre, rpre = kw.get('l_out_prefix', 'l_'), kw.get('r_out_prefix', 'r_')
    lcol, rcol = lpre + lk, rpre + rk
    allow_empty = kw.get('allow_empty', True)
    allow_missing = kw.get('allow_missing', False)
    oss = kw.get('out_sim_score', True)
    pairs = out_pairs(out, lcol, rcol)
    scores = list(out['_sim_score']) if oss else [None] * len(pairs)
    lp, rp = present_rows(L, lk, la), present_rows(R, rk, ra)
    lval, rval = dict(zip(L[lk], L[la])), dict(zip(R[rk], R[ra]))
    lmiss, rmiss = set(missing_keys(L, lk, la)), set(missing_keys(R, rk, ra))
    cnt = {}
    for p in pairs:
        cnt[p] = cnt.get(p, 0) + 1
    # expected classification of every present pair
    for (a, ls) in lp:
        for (b, rs) in rp:
            raw, lt, rt = ref_score(which, ts, ls, rs)
            both_empty = len(lt) == 0 and len(rt) == 0
            if which == 'overlap':
                strict = op(raw, t) and not both_empty
                rounded_ok = strict
                expect_score = raw
            elif which == 'overlap_coefficient':
                strict = op(raw, t)
                rounded_ok = strict
                expect_score = float(raw)
            else:
                strict = op(raw, t) and op(round(raw, 4), t)
                rounded_ok = op(round(raw, 4), t)
                expect_score = round(raw, 4)
            present = (a, b) in cnt
            if both_empty:
                if which == 'overlap':
                    if present and 'C09' in props:
                        v.append(viol('C09', 'overlap_join returned a pair of two empty token sets', case, None, [a, b]))
                elif 'C09' in props:
                    if present != bool(allow_empty):
                        v.append(viol('C09', 'empty-empty pair %s although allow_empty=%s' % ('returned' if present else 'not returned', allow_empty),
                                      case, allow_empty, [a, b]))
                    elif present and oss:
                        sc = [s for p, s in zip(pairs, scores) if p == (a, b)]
                        if any(float(s) != 1.0 for s in sc):
                            v.append(viol('C09', 'empty-empty pair with score != 1.0', case, 1.0, sc))
                continue
            if (len(lt) == 0) != (len(rt) == 0) and present and 'C09' in props:
                v.append(viol('C09', 'pair with exactly one empty side returned', case, None, [a, b]))
            if strict and not present and 'C01' in props:
                v.append(viol('C01', 'qualifying pair missing from %s_join (score %r, threshold %r, sizes %d/%d)' % (which, raw, t, len(lt), len(rt)),
                              case, [a, b], None))
            if present and 'C02' in props:
                if not rounded_ok:
                    v.append(viol('C02', 'returned pair does not satisfy the comparison (score %r, threshold %r)' % (raw, t), case, None, [a, b]))
                if oss:
                    sc = [s for p, s in zip(pairs, scores) if p == (a, b)][0]
                    if float(sc) != float(expect_score):
                        v.append(viol('C02', '_sim_score differs from the recomputed similarity', case, expect_score, float(sc)))
    if 'C02' in props:
        for p, c in cnt.items():
            if c > 1:
                v.append(viol('C02', 'key pair returned %d times' % c, case, 1, list(p)))
            if p[0] not in lval or p[1] not in rval:
                v.append(viol('C02', 'output row names a key that does not exist', case, None, list(p)))
    if 'C08' in props:
        exp_missing = set((a, b) for a in lval for b in rval if a in lmiss or b in rmiss)
        got_missing = [p for p in pairs if p[0] in lmiss or p[1] in rmiss]
        if not allow_missing and got_missing:
            v.append(viol('C08', 'row with a missing join value in the output although allow_missing=False', case, [], got_missing[:3]))
        if allow_missing:
            if set(got_missing) != exp_missing or len(got_missing) != len(exp_missing):
                v.append(viol('C08', 'pairs with a missing value are not exactly {missing x all}', case, len(exp_missing), len(got_missing)))
            if oss:
                bad = [p for p, s in zip(pairs, scores) if (p[0] in lmiss or p[1] in rmiss) and not is_missing(s)]
                if bad:
                    v.append(viol('C08', 'missing-value pair with a non-NaN score', case, None, bad[:3]))
    if 'C11' in props:
        v += check_header_projection(case, out, L, R, lk, rk, kw.get('l_out_attrs'), kw.get('r_out_attrs'), lpre, rpre, oss)
    if 'C10' in props and list(out['_id']) != list(range(len(out))):
        v.append(viol('C10', '_id is not 0..n-1', case, None, list(out['_id'])[:10]))
    return v


def dedup_attrs(attrs, key):
    if attrs is None:
        return []
    out = []
    for a in attrs:
        if a != key and a not in out:
            out.append(a)
    return out


def check_header_projection(case, out, L, R, lk, rk, lo, ro, lpre, rpre, oss, has_id=True):
    v = []
    lo2, ro2 = dedup_attrs(lo, lk), dedup_attrs(ro, rk)
    exp_cols = (['_id'] if has_id else []) + [lpre + lk, rpre + rk] + [lpre + a for a in lo2] + [rpre + a for a in ro2] + (['_sim_score'] if oss else [])
    if [str(c) for c in out.columns] != exp_cols:
        v.append(viol('C11', 'unexpected output columns', case, exp_cols, [str(c) for c in out.columns]))
        return v
    Lk = {keyv(k): i for i, k in enumerate(L[lk])}
    Rk = {keyv(k): i for i, k in enumerate(R[rk])}
    off = 1 if has_id else 0
    for row in out.itertuples(index=False, name=None):
        a, b = keyv(row[off]), keyv(row[off + 1])
        if a not in Lk or b not in Rk:
            v.append(viol('C11', 'row key not found in the source table', case, None, [cell(a), cell(b)]))
            continue
        for j, attr in enumerate(lo2):
            src = L[attr].iloc[Lk[a]]
            if cell(row[off + 2 + j]) != cell(src):
                v.append(viol('C11', 'projected left value differs from the source row (attr %s)' % attr, case, cell(src), cell(row[off + 2 + j])))
        for j, attr in enumerate(ro2):
            src = R[attr].iloc[Rk[b]]
            if cell(row[off + 2 + len(lo2) + j]) != cell(src):
                v.append(viol('C11', 'projected right value differs from the source row (attr %s)' % attr, case, cell(src), cell(row[off + 2 + len(lo2) + j])))
    return v


def empties_corpus():
    """deterministic C09 cases: every join x allow_empty x allow_missing x n_jobs on two small tables in which values that
    tokenize to nothing occur on both sides (together with a one-sided empty, a missing value and ordinary values)"""
    ts = TokSpec('ws', return_set=True)
    L = pd.DataFrame({'id': [1, 2, 3, 4, 5], 'attr': pd.Series(['a b', '', 'c d e', '   ', None], dtype=object)})
    R = pd.DataFrame({'id': [11, 12, 13, 14, 15, 16], 'attr': pd.Series(['', 'a b', 'c d', ' ', None, 'e'], dtype=object)})
    for which in ('jaccard', 'cosine', 'dice', 'overlap_coefficient', 'overlap'):
        for ae in (True, False):
            for am in (True, False):
                for nj in (1, 2, 3):
                    for (t, op) in (((1, '>=') if which == 'overlap' else (0.5, '>=')), ((2, '=') if which == 'overlap' else (1.0, '='))):
                        kw = {'comp_op': op, 'allow_missing': am, 'l_out_attrs': None, 'r_out_attrs': ['attr'], 'out_sim_score': True, 'n_jobs': nj}
                        if which != 'overlap':
                            kw['allow_empty'] = ae
                        elif not ae:
                            continue
                        yield which, ts, L, R, 'id', 'id', 'attr', 'attr', t, kw


def oracle_setsim(rng, n, stats, props, whiches=('jaccard', 'cosine', 'dice', 'overlap_coefficient', 'overlap'), adversarial_p=0.3, **gk):
    v = []
    fixed = list(empties_corpus()) if ('C09' in props and not gk) else []
    prev_case = None
    for it in range(n + len(fixed)):
        which = rng.choice(whiches)
        reconf = None
        if it < len(fixed):
            which, ts, L, R, lk, rk, la, ra, t, kw = fixed[it]
            if which not in whiches:
                continue
        elif rng.random() < adversarial_p and (which in MEASURE_OF or which == 'overlap_coefficient'):
            c = adversarial_join_case(rng, which, stats)
            if c is None:
                continue
            which, ts, L, R, lk, rk, la, ra, t, kw = c
        elif prev_case is not None and rng.random() < 0.12:
            # the previous call's tokenizer OBJECT and tables again, after the caller re-configured the tokenizer in place:
            # every string is now tokenized differently; nothing remembered about (object, string) may be used
            which, ts, L, R, lk, rk, la, ra, t, kw = prev_case
            reconf = ts.reconfigure(rng)
            stats.hit('oracle.setsim.tokenizer_reconfigured')
        else:
            which, ts, L, R, lk, rk, la, ra, t, kw = gen_join_case(rng, stats, which, **gk)
        if isinstance(t, float) and t < 1e-150:
            continue
        prev_case = (which, ts, L, R, lk, rk, la, ra, t, kw) if which != 'edit_distance' and it >= len(fixed) else None
        flag0 = ts.obj.get_return_set()
        try:
            out = call_join(which, L, R, lk, rk, la, ra, ts, t, kw, public=rng.random() < 0.3)
        except Exception as e:    # noqa: BLE001
            v.append(viol('C15', 'valid %s_join call raised %s: %s' % (which, type(e).__name__, str(e)[:100]),
                          join_case(which, ts, L, R, lk, rk, la, ra, t, kw)))
            ts.obj.set_return_set(flag0)
            continue
        stats.hit('oracle.join.rows', len(out))
        if ts.obj.get_return_set() != flag0 and 'C12' in props:
            v.append(viol('C12', 'tokenizer return_set flag changed by %s_join' % which, join_case(which, ts, L, R, lk, rk, la, ra, t, kw), flag0, ts.obj.get_return_set()))
        vs = check_setsim_run(which, ts, L, R, lk, rk, la, ra, t, kw, out, props)
        if reconf:
            vs = [dict(x, case=dict(x['case'], tokenizer_reconfigured=reconf, note='same tokenizer object and tables as the previous call of this oracle run')) for x in vs]
        v += vs
    return v


# ------------------------------------------------------------------ adversarial tables from the arithmetic of the bounds
def near_integer_thresholds(rng, n):
    """thresholds t with t*n (or a related product) landing within an ulp of an integer"""
    out = []
    for k in range(1, n + 1):
        out.append(k / n)
        out.append(math.nextafter(k / n, 0.0))
        out.append(math.nextafter(k / n, 2.0))
    out += [x / 100.0 for x in range(1, 101)]
    return [t for t in out if 0 < t <= 1]


def adversarial_join_case(rng, which, stats):
    """A left row with n tokens and a right row made of its o LAST-ranked tokens (+ fresh ones) so that the
    similarity equals / barely reaches the threshold, with filler rows making the common tokens the most frequent:
    the arrangement in which prefix/position pruning is tightest."""
    n = rng.randint(2, 45)
    t = rng.choice(near_integer_thresholds(rng, n))
    m = which
    # choose o, msize so that the pair qualifies as tightly as possible
    best = None
    for msize in range(1, n + 1):
        for o in range(1, msize + 1):
            a, b = set(range(n)), set(range(o)) | set(range(1000, 1000 + msize - o))
            raw = SIMS[m](a, b)
            if raw >= t and (round(raw, 4) >= t or which == 'overlap_coefficient'):      # (the overlap coefficient is not rounded)
                cand = (raw - t, msize, o)
                if best is None or cand < best:
                    best = cand
                break
    if best is None:
        return None
    _, msize, o = best
    common_toks = ['c%02d' % i for i in range(o)]
    ltoks = common_toks + ['l%02d' % i for i in range(n - o)]
    rtoks = common_toks + ['r%02d' % i for i in range(msize - o)]
    filler = [' '.join(common_toks) for _ in range(rng.randint(1, 3))]       # makes the common tokens frequent (= ranked last)
    rng.shuffle(ltoks)
    rng.shuffle(rtoks)
    lvals = [' '.join(ltoks)] + filler + [' '.join(rng.sample(ltoks, rng.randint(1, len(ltoks)))) for _ in range(rng.randint(0, 2))]
    rvals = [' '.join(rtoks)] + [' '.join(rng.sample(rtoks, rng.randint(1, len(rtoks)))) for _ in range(rng.randint(0, 2))]
    if rng.random() < 0.5:          # transposed roles: the big set probes
        lvals, rvals = rvals + filler, [lvals[0]] + lvals[len(filler) + 1:]
    ts = TokSpec('ws', return_set=rng.random() < 0.5)
    if not ts.obj.get_return_set() and rng.random() < 0.6:
        # a bag tokenizer and repeated tokens in the tightest pair: the joins work on SETS (they coerce the tokenizer), so
        # repeats change neither the similarity nor the result — unless some stage counts the bag
        lvals[0] = lvals[0] + ' ' + ' '.join([lvals[0].split(' ')[0]] * rng.randint(1, 3))
        rvals[0] = rvals[0] + ' ' + ' '.join([rvals[0].split(' ')[-1]] * rng.randint(0, 2))
        rvals[0] = rvals[0].strip()
        stats.hit('oracle.adversarial.bag_repeats')
    L = make_frame(rng, lvals, key_kind='int', extra_cols=0, shuffle_cols=False, odd_index=False)
    R = make_frame(rng, rvals, key_kind='int', extra_cols=0, shuffle_cols=False, odd_index=False)
    kw = {'comp_op': '>=', 'allow_missing': False, 'out_sim_score': True, 'n_jobs': rng.choice([1, 1, 2]), 'allow_empty': True}
    stats.hit('oracle.adversarial.' + which)
    return which, ts, L, R, 'id', 'id', 'attr', 'attr', t, kw


# ------------------------------------------------------------------ C03 edit distance join
def oracle_edit_distance(rng, n, stats, props=('C03',)):
    v = []
    for _ in range(n):
        which, ts, L, R, lk, rk, la, ra, t, kw = gen_join_case(rng, stats, 'edit_distance')
        case = join_case(which, ts, L, R, lk, rk, la, ra, t, kw)
        flag0 = ts.obj.get_return_set()
        try:
            out = call_join(which, L, R, lk, rk, la, ra, ts, t, kw, public=rng.random() < 0.3)
        except Exception as e:    # noqa: BLE001
            v.append(viol('C15', 'valid edit_distance_join call raised %s: %s' % (type(e).__name__, str(e)[:100]), case))
            ts.obj.set_return_set(flag0)
            continue
        if ts.obj.get_return_set() != flag0:
            v.append(viol('C12', 'tokenizer return_set flag changed by edit_distance_join', case, flag0, ts.obj.get_return_set()))
        tau = int(math.floor(t))
        integral = float(t) == float(tau)      # C03: "against the integral threshold", "thresholds 0,1,2,..." — 1.5 is outside it
        op = OPS[kw['comp_op']]
        pairs = out_pairs(out, 'l_' + lk if 'l_out_prefix' not in kw else kw['l_out_prefix'] + lk,
                          'r_' + rk if 'r_out_prefix' not in kw else kw['r_out_prefix'] + rk)
        oss = kw.get('out_sim_score', True)
        scores = list(out['_sim_score']) if oss else [None] * len(pairs)
        got = {}
        for p, s in zip(pairs, scores):
            got.setdefault(p, []).append(s)
        lmiss, rmiss = set(missing_keys(L, lk, la)), set(missing_keys(R, rk, ra))
        for (a, ls) in present_rows(L, lk, la):
            for (b, rs) in present_rows(R, rk, ra):
                d = LEV(ls, rs)
                share = len(set(ts.tokens(ls, False)) & set(ts.tokens(rs, False))) > 0
                qual = op(d, tau)
                present = (a, b) in got
                dr = LEV_REAL(ls, rs)
                if dr != d:
                    # the dependency's Levenshtein is wrong on this pair (known finding K8): say so in the case
                    case = dict(case, pair_strings=[ls, rs], true_levenshtein=d, py_stringmatching_levenshtein=int(dr))
                else:
                    case = {k: x for k, x in case.items() if k not in ('pair_strings', 'true_levenshtein', 'py_stringmatching_levenshtein')}
                if present and not qual and integral:
                    v.append(viol('C03', 'returned pair with distance %d not satisfying %s %d' % (d, kw['comp_op'], tau), case, None, [a, b]))
                if present and len(got[(a, b)]) > 1:
                    v.append(viol('C03', 'key pair returned more than once', case, 1, [a, b]))
                if present and oss and any(int(s) != d for s in got[(a, b)]):
                    v.append(viol('C03', '_sim_score differs from the Levenshtein distance', case, d, [int(s) for s in got[(a, b)]]))
                if qual and share and not present and d <= tau and integral:
                    v.append(viol('C03', 'qualifying pair sharing a q-gram missing (distance %d, threshold %d)' % (d, tau), case, [a, b], None))
                if qual and ts.padding and max(len(ls), len(rs)) >= ts.qval * tau - ts.qval + 2 and not present and d <= tau and integral:
                    v.append(viol('C03', 'padding corollary: long qualifying pair missing', case, [a, b], None))
        stats.hit('oracle.ed.rows', len(out))
        if 'C08' in props:
            am = kw.get('allow_missing', False)
            lall, rall = [keyv(x) for x in L[lk]], [keyv(x) for x in R[rk]]
            exp_missing = set((a, b) for a in lall for b in rall if a in lmiss or b in rmiss)
            got_missing = [p for p in pairs if p[0] in lmiss or p[1] in rmiss]
            if not am and got_missing:
                v.append(viol('C08', 'row with a missing join value in the output of edit_distance_join although allow_missing=False', case, [], got_missing[:3]))
            if am and (set(got_missing) != exp_missing or len(got_missing) != len(exp_missing)):
                v.append(viol('C08', 'edit_distance_join: pairs with a missing value are not exactly {missing x all}', case, len(exp_missing), len(got_missing)))
            if am and oss and any(not is_missing(sc) for p, sc in zip(pairs, scores) if p[0] in lmiss or p[1] in rmiss):
                v.append(viol('C08', 'edit_distance_join: a pair with a missing value carries a score', case))
    return v


# ------------------------------------------------------------------ C04 / C14 / C09: filters
def ref_qualifies(m, ts, ls, rs, t):
    """does the pair meet the filter's threshold (>= for similarities, <= and sharing a q-gram for edit distance)"""
    if m == 'EDIT_DISTANCE':
        share = len(set(ts.tokens(ls, False)) & set(ts.tokens(rs, False))) > 0
        return LEV(ls, rs) <= t and share
    cur = ts.obj.get_return_set()
    lt, rt = ts.tokens(ls, cur), ts.tokens(rs, cur)
    if m == 'OVERLAP':
        return len(set(lt) & set(rt)) >= t
    fn = {'JACCARD': SIMS['jaccard'], 'COSINE': SIMS['cosine'], 'DICE': SIMS['dice']}[m]
    if len(lt) == 0 and len(rt) == 0:
        return None       # governed by allow_empty
    raw = fn(set(lt), set(rt))
    return raw >= t and round(raw, 4) >= t


def filter_case(kind, d, ts, extra):
    c = {'entry': 'filter', 'kind': kind, 'filter': d, 'tokenizer': tok_to_case(ts)}
    c.update(extra)
    return c


def filter_empties_corpus(kinds):
    """deterministic C09 cases for the filters: every filter x JACCARD/COSINE/DICE x allow_empty on (a) a left table in which
    EVERY present value tokenizes to nothing (nothing gets indexed) and (b) a mixed one, against a right table with
    token-less and ordinary values"""
    out = []
    shapes = [(['', '   ', None], ['', 'a b', '  ', 'c']), (['', 'a b', 'c d e', '  '], ['a b', '', 'c d', ' '])]
    for kind in kinds:
        if kind == 'overlap':
            continue
        for m, t in (('JACCARD', 0.5), ('COSINE', 0.7), ('DICE', 0.6)):
            for ae in (True, False):
                for lv, rv in shapes:
                    ts = TokSpec('ws', return_set=True)
                    f = FILTERS[kind](ts.obj, m, t, ae, False)
                    d = {'kind': kind, 'measure': m, 'threshold': pyv(t), 'allow_empty': ae, 'allow_missing': False}
                    L = pd.DataFrame({'id': list(range(1, len(lv) + 1)), 'attr': pd.Series(lv, dtype=object)})
                    R = pd.DataFrame({'id': list(range(11, len(rv) + 11)), 'attr': pd.Series(rv, dtype=object)})
                    out.append((kind, ts, f, d, L, R, 'id', 'id', 'attr', 'attr'))
    return out


def oracle_filters(rng, n, stats, props, kinds=('size', 'prefix', 'position', 'suffix', 'overlap')):
    """C04 safety (pair / tables / candset), C09 empties, C14 pruning promises, C06 candset row-wise + overlap exact"""
    v = []
    prev, earlier = None, []
    reuse_tables, prev_tables = False, None
    fixed = filter_empties_corpus(kinds) if 'C09' in props else []
    for it in range(n + len(fixed)):
        forced = fixed[it] if it < len(fixed) else None
        if forced is not None:
            kind, ts, f, d = forced[:4]
            prev_is_new, earlier = False, []
        elif prev is not None and rng.random() < 0.25:
            # the SAME filter object on another pair of tables: a filter is a value (tokenizer, measure, threshold, flags);
            # whatever it did on earlier tables must not matter
            kind, ts, f, d = prev
            prev_is_new = False
            stats.hit('oracle.filters.object_reused')
            if d.get('measure', 'OVERLAP') != 'EDIT_DISTANCE' and rng.random() < 0.5:
                # ... after the caller re-configured the tokenizer the filter holds (qval, padding, delimiters; not the mode)
                mode0 = ts.obj.get_return_set()
                how = ts.reconfigure(rng)
                ts.obj.set_return_set(mode0)
                earlier = earlier + [{'tokenizer_reconfigured': how}]
                reuse_tables = rng.random() < 0.6
                stats.hit('oracle.filters.tokenizer_reconfigured')
        else:
            prev_is_new = True
            kind = rng.choice(kinds)
            # tokenizer consistent with the property's assumption: sets for set measures, bags of q-grams for ED
            ts = gen_tokenizer(rng)
            f, d = gen_filter(rng, ts, kind, stats)
            earlier = []
        prev = (kind, ts, f, d)
        m = d.get('measure', 'OVERLAP')
        t = f.overlap_size if kind == 'overlap' else f.threshold
        if m == 'EDIT_DISTANCE':
            ts.obj.set_return_set(False)
        elif kind == 'overlap' and prev_is_new and rng.random() < 0.4:
            # OverlapFilter counts DISTINCT common tokens whatever the tokenizer returns (its similarity function builds the
            # sets itself): a bag tokenizer must give the same verdicts
            ts.obj.set_return_set(False)
            stats.hit('oracle.filters.overlap_bag_tokenizer')
        elif prev_is_new:
            ts.obj.set_return_set(True)
        L, R, lk, rk, la, ra = gen_join_frames(rng, ts, stats, big=rng.random() < 0.3)
        if forced is not None:
            L, R, lk, rk, la, ra = forced[4:]
        elif reuse_tables and prev_tables is not None:
            L, R, lk, rk, la, ra = prev_tables      # the very strings the filter has seen under the old configuration
        reuse_tables = False
        prev_tables = (L, R, lk, rk, la, ra)
        case0 = {'ltable': frame_to_case(L), 'rtable': frame_to_case(R), 'l_key': lk, 'r_key': rk, 'l_attr': la, 'r_attr': ra}
        if earlier:
            case0['earlier_tables_on_this_filter_object'] = list(earlier)
        earlier.append({'ltable': case0['ltable'], 'rtable': case0['rtable'], 'l_key': lk, 'r_key': rk, 'l_attr': la, 'r_attr': ra})
        try:
            nj = rng.choice([1, 1, 2, 3])
            with quiet():
                out = f.filter_tables(L, R, lk, rk, la, ra, n_jobs=nj, **progress_kw('filter_tables', kind, len(L), len(R), nj))
        except Exception as e:   # noqa: BLE001
            v.append(viol('C15', 'valid %s filter_tables call raised %s: %s' % (kind, type(e).__name__, str(e)[:100]), filter_case(kind, d, ts, case0)))
            continue
        kept = set(out_pairs(out, 'l_' + lk, 'r_' + rk))
        lp, rp = present_rows(L, lk, la), present_rows(R, rk, ra)
        cur = ts.obj.get_return_set()
        for (a, ls) in lp:
            for (b, rs) in rp:
                lt, rt = ts.tokens(ls, cur), ts.tokens(rs, cur)
                both_empty = not lt and not rt
                case = filter_case(kind, d, ts, dict(case0, pair=[cell(a), cell(b)], strings=[ls, rs], n_jobs=nj))
                try:
                    dropped_pair = bool(f.filter_pair(ls, rs))
                except Exception as e:   # noqa: BLE001
                    v.append(viol('C15', 'valid %s filter_pair call raised %s: %s' % (kind, type(e).__name__, str(e)[:100]), case))
                    continue
                in_tables = (a, b) in kept
                if kind == 'overlap':
                    ov = len(set(lt) & set(rt))
                    exact = bool(ls) and bool(rs) and OPS[f.comp_op](ov, f.overlap_size)
                    if 'C06' in props and dropped_pair == exact:
                        v.append(viol('C06', 'OverlapFilter.filter_pair is not exact (overlap %d, size %s %s)' % (ov, f.comp_op, f.overlap_size), case, not exact, dropped_pair))
                    if not cur:
                        # bag tokenizer: only filter_pair is claimed exact (C06's quantifier: "filter_tables with a set-returning
                        # tokenizer, as overlap_join arranges; a bag tokenizer would count repeated tokens")
                        continue
                    exact_t = ov > 0 and OPS[f.comp_op](ov, f.overlap_size)
                    if 'C06' in props and in_tables != exact_t:
                        v.append(viol('C06', 'OverlapFilter.filter_tables is not exact (overlap %d)' % ov, case, exact_t, in_tables))
                    if 'C14' in props and ov == 0 and (in_tables or not dropped_pair):
                        v.append(viol('C14', 'OverlapFilter keeps a pair without a common token', case))
                    if 'C04' in props and f.comp_op == '>=' and ov >= f.overlap_size:
                        if dropped_pair:
                            v.append(viol('C04', 'OverlapFilter.filter_pair drops a pair whose overlap %d meets the threshold %s' % (ov, f.overlap_size), case, False, True))
                        if not in_tables:
                            v.append(viol('C04', 'OverlapFilter.filter_tables omits a pair whose overlap %d meets the threshold %s' % (ov, f.overlap_size), case, True, False))
                    continue
                if both_empty and m not in ('OVERLAP', 'EDIT_DISTANCE'):
                    if 'C09' in props:
                        if dropped_pair == bool(f.allow_empty):
                            v.append(viol('C09', '%s filter_pair on two empty values ignores allow_empty' % kind, case, not f.allow_empty, dropped_pair))
                        if in_tables != bool(f.allow_empty):
                            v.append(viol('C09', '%s filter_tables on two empty values ignores allow_empty' % kind, case, f.allow_empty, in_tables))
                    continue
                if both_empty and m == 'OVERLAP' and 'C09' in props and (in_tables or not dropped_pair):
                    v.append(viol('C09', '%s filter under OVERLAP keeps a pair of two empty values' % kind, case))
                q = ref_qualifies(m, ts, ls, rs, t)
                if q and 'C04' in props:
                    if dropped_pair:
                        v.append(viol('C04', '%sFilter.filter_pair drops a qualifying pair (%s, t=%r, sizes %d/%d)' % (kind, m, t, len(lt), len(rt)), case, False, True))
                    if not in_tables:
                        v.append(viol('C04', '%sFilter.filter_tables omits a qualifying pair (%s, t=%r, sizes %d/%d)' % (kind, m, t, len(lt), len(rt)), case, True, False))
                if 'C14' in props and kind in ('prefix', 'position') and not both_empty:
                    if not (set(lt) & set(rt)) and (in_tables or not dropped_pair):
                        v.append(viol('C14', '%sFilter keeps a pair without a common token' % kind, case))
                if 'C14' in props and kind == 'size' and m in ('JACCARD', 'COSINE', 'DICE', 'EDIT_DISTANCE') and not both_empty:
                    nl, nr = len(lt), len(rt)
                    lo, hi = min(nl, nr), max(nl, nr)
                    if m == 'EDIT_DISTANCE':
                        hopeless = abs(nl - nr) > t
                    elif lo == 0:
                        hopeless = True
                    else:
                        best = {'JACCARD': lo / hi, 'COSINE': math.sqrt(lo / hi), 'DICE': 2.0 * lo / (nl + nr)}[m]
                        hopeless = best < t - 1e-4
                    if hopeless and (in_tables or not dropped_pair):
                        v.append(viol('C14', 'SizeFilter keeps a pair whose counts cannot reach the threshold (%s t=%r sizes %d/%d)' % (m, t, nl, nr), case))
        # C14 refinement: position ⊆ prefix ∩ size on the same tables / chunking
        if 'C14' in props and kind == 'position':
            try:
                kp = set(out_pairs(PREFIX(ts.obj, m, t, f.allow_empty, f.allow_missing).filter_tables(L, R, lk, rk, la, ra, n_jobs=nj, show_progress=False), 'l_' + lk, 'r_' + rk))
                ks = set(out_pairs(SIZE(ts.obj, m, t, f.allow_empty, f.allow_missing).filter_tables(L, R, lk, rk, la, ra, n_jobs=nj, show_progress=False), 'l_' + lk, 'r_' + rk))
                if not kept <= kp or not kept <= ks:
                    v.append(viol('C14', 'PositionFilter keeps pairs Prefix/SizeFilter drop', filter_case(kind, d, ts, dict(case0, n_jobs=nj)), None, sorted(map(str, (kept - kp) | (kept - ks)))[:3]))
            except Exception:   # noqa: BLE001
                pass
        # candset: row-wise filter_pair (C06) and safety (C04 via filter_pair above)
        if 'C06' in props or 'C04' in props or 'C08' in props:
            C, clk, crk = gen_candset(rng, L, R, lk, rk, stats)
            try:
                nj2 = rng.choice([1, 2, 3])
                with quiet():
                    oc = f.filter_candset(C, clk, crk, L, R, lk, rk, la, ra, n_jobs=nj2, **progress_kw('filter_candset', kind, len(C), nj2))
            except Exception as e:   # noqa: BLE001
                v.append(viol('C15', 'valid filter_candset call raised %s' % type(e).__name__, filter_case(kind, d, ts, dict(case0, candset=frame_to_case(C)))))
                continue
            lval, rval = dict(zip(L[lk], L[la])), dict(zip(R[rk], R[ra]))
            mask = [not f.filter_pair(lval[a], rval[b]) for a, b in zip(C[clk], C[crk])]
            exp = C[pd.Series(mask, index=C.index, dtype=bool)]
            if 'C06' in props and (list(exp.index) != list(oc.index) or list(exp.columns) != list(oc.columns) or
                                   [tuple(map(cell, r)) for r in exp.itertuples(index=False, name=None)] != [tuple(map(cell, r)) for r in oc.itertuples(index=False, name=None)]):
                v.append(viol('C06', '%s filter_candset differs from row-wise filter_pair' % kind, filter_case(kind, d, ts, dict(case0, candset=frame_to_case(C), n_jobs=nj2)),
                              len(exp), len(oc)))
            if 'C06' in props and len(oc) and rng.random() < 0.5:
                # idempotence (Lean: C06.candset_idempotent): the result is itself a candidate set — with gaps in its row
                # labels — and row-wise filter_pair keeps every row of it
                try:
                    with quiet():
                        oc2 = f.filter_candset(oc, clk, crk, L, R, lk, rk, la, ra, n_jobs=rng.choice([1, 2, 3]), show_progress=False)
                    stats.hit('oracle.candset.refiltered')
                    if (list(oc2.index) != list(oc.index) or list(oc2.columns) != list(oc.columns) or
                            [tuple(map(cell, r)) for r in oc2.itertuples(index=False, name=None)] != [tuple(map(cell, r)) for r in oc.itertuples(index=False, name=None)]):
                        v.append(viol('C06', '%s filter_candset of its own result differs from row-wise filter_pair (which keeps every row)' % kind,
                                      filter_case(kind, d, ts, dict(case0, candset=frame_to_case(oc))), len(oc), len(oc2)))
                except Exception as e:   # noqa: BLE001
                    v.append(viol('C15', 'valid filter_candset call (on a filtered candset) raised %s' % type(e).__name__, filter_case(kind, d, ts, dict(case0, candset=frame_to_case(oc)))))
            if 'C08' in props and not f.allow_missing:
                for a, b in zip(oc[clk], oc[crk]):
                    if is_missing(lval[a]) or is_missing(rval[b]):
                        v.append(viol('C08', 'filter_candset keeps a pair with a missing value although allow_missing=False', filter_case(kind, d, ts, dict(case0, candset=frame_to_case(C)))))
                        break
    return v


from py_stringsimjoin.filter.prefix_filter import PrefixFilter as PREFIX     # noqa: E402
from py_stringsimjoin.filter.size_filter import SizeFilter as SIZE           # noqa: E402


# ------------------------------------------------------------------ C05 apply_matcher
def oracle_matcher(rng, n, stats):
    v = []
    for _ in range(n):
        use_tok = rng.random() < 0.75
        ts = gen_tokenizer(rng) if use_tok else None
        L, R, lk, rk, la, ra = gen_join_frames(rng, ts or TokSpec('ws'), stats)
        C, clk, crk = gen_candset(rng, L, R, lk, rk, stats, la=la)
        if use_tok:
            name, base = rng.choice([('jaccard', Jaccard().get_raw_score), ('overlap', lambda a, b: len(set(a) & set(b))), ('dice', Dice().get_raw_score)])
        elif L is not R and lk != la and rk != ra and rng.random() < 0.25:
            # without a tokenizer the match attributes need not be strings: years compared by |a - b|
            L, R = L.copy(), R.copy()
            if rng.random() < 0.5:
                L[la] = pd.Series([rng.randint(1990, 1996) for _ in range(len(L))], dtype='int64', index=L.index)
                R[ra] = pd.Series([rng.randint(1990, 1996) for _ in range(len(R))], dtype='int64', index=R.index)
            else:
                L[la] = pd.Series([rng.choice([1990.0, 1991.5, 1993.0, np.nan]) for _ in range(len(L))], dtype='float64', index=L.index)
                R[ra] = pd.Series([rng.choice([1990.0, 1991.5, 1993.0, np.nan]) for _ in range(len(R))], dtype='float64', index=R.index)
            name, base = 'absdiff', (lambda a, b: abs(a - b))
            stats.hit('oracle.matcher.numeric_match_attr')
        else:
            name, base = rng.choice([('lev', LEV), ('lendiff', lambda a, b: abs(len(a) - len(b)))])
        t = rng.choice([0.3, 0.5, 0.7, 1, 1.0, 2, 0])
        opn = rng.choice(list(OPS))
        am = rng.random() < 0.4
        lo, ro = choose_out_attrs(rng, L, lk, la), choose_out_attrs(rng, R, rk, ra)
        oss = rng.random() < 0.7
        outs = {}
        case = {'entry': 'apply_matcher', 'tokenizer': tok_to_case(ts) if ts else None, 'sim': name, 'ltable': frame_to_case(L), 'rtable': frame_to_case(R),
                'candset': frame_to_case(C), 'l_key': lk, 'r_key': rk, 'l_attr': la, 'r_attr': ra, 'threshold': t, 'comp_op': opn,
                'allow_missing': am, 'l_out': lo, 'r_out': ro, 'out_sim_score': oss}
        try:
            for nj in (1, rng.choice([2, 3, 50])):
                with quiet():
                    outs[nj] = ssj.apply_matcher(C, clk, crk, L, R, lk, rk, la, ra, ts.obj if ts else None, base, t, opn, am, lo, ro, 'l_', 'r_', oss, nj,
                                                 **progress_kw('apply_matcher', len(C), nj, opn, str(t)))
        except Exception as e:   # noqa: BLE001
            v.append(viol('C15', 'valid apply_matcher call raised %s: %s' % (type(e).__name__, str(e)[:80]), case))
            continue
        out = outs[1]
        if len(C) == 0:
            continue
        lval, rval = dict(zip(L[lk], L[la])), dict(zip(R[rk], R[ra]))
        exp = []
        for cid, a, b in zip(C.iloc[:, 0], C[clk], C[crk]):
            x, y = lval[a], rval[b]
            if is_missing(x) or is_missing(y):
                if am:
                    exp.append((keyv(cid), keyv(a), keyv(b), None))
                continue
            if ts:
                x, y = ts.obj.tokenize(x), ts.obj.tokenize(y)
            s = base(x, y)
            if OPS[opn](s, t):
                exp.append((keyv(cid), keyv(a), keyv(b), s))
        got = [(keyv(r[0]), keyv(r[1]), keyv(r[2])) for r in out.itertuples(index=False, name=None)]
        if got != [e[:3] for e in exp]:
            v.append(viol('C05', 'apply_matcher rows differ from the row-wise predicate', case, len(exp), len(got)))
        elif oss:
            sc = list(out['_sim_score'])
            for e, s in zip(exp, sc):
                if (e[3] is None) != is_missing(s) or (e[3] is not None and float(e[3]) != float(s)):
                    v.append(viol('C05', '_sim_score is not the value sim_function returned', case, e[3], None if is_missing(s) else float(s)))
                    break
        def ordered_rows(fr):
            # rows in order; `_sim_score` compared numerically (0 and 0.0 are one score: which one a frame shows depends on
            # pandas' dtype inference over the concatenated chunks)
            sj = list(fr.columns).index('_sim_score') if '_sim_score' in fr.columns else -1
            res = []
            for r in fr.itertuples(index=False, name=None):
                cs = [cell(x) for x in r]
                if sj >= 0 and isinstance(cs[sj], dict) and 'i' in cs[sj]:
                    cs[sj] = {'f': f2hex(float(cs[sj]['i']))}
                res.append(cs)
            return res
        for nj, o2 in outs.items():
            if ordered_rows(o2) != ordered_rows(out):
                v.append(viol('C05', 'apply_matcher result depends on n_jobs', dict(case, n_jobs=nj)))
        v += [dict(x, property='C11') for x in check_header_projection(case, out, L, R, lk, rk, lo, ro, 'l_', 'r_', oss)] if False else []
        stats.hit('oracle.matcher.kept', len(out))
    return v


# ------------------------------------------------------------------ C11 header / projection of filter_tables and apply_matcher
def oracle_projection(rng, n, stats):
    """C11 for the entry points other than the joins: every filter's filter_tables, with any output attribute lists, the
    caller's own prefixes, allow_missing, and show_progress left at its default in a share of calls (apply_matcher is not
    in C11's statement: an empty candidate set is returned as it is, whatever columns it has)"""
    v = []
    for _ in range(n):
        ts = gen_tokenizer(rng)
        L, R, lk, rk, la, ra = gen_join_frames(rng, ts, stats, nonstring=False)
        lo, ro = choose_out_attrs(rng, L, lk, la), choose_out_attrs(rng, R, rk, ra)
        lpre, rpre = S.gen_prefixes(rng, stats, 'oracle.projection')
        nj = rng.choice([1, 1, 2, 3])
        base = {'ltable': frame_to_case(L), 'rtable': frame_to_case(R), 'l_key': lk, 'r_key': rk, 'l_attr': la, 'r_attr': ra,
                'l_out': lo, 'r_out': ro, 'l_out_prefix': lpre, 'r_out_prefix': rpre, 'n_jobs': nj}
        case = dict(base, entry='filter_tables')
        try:
            kind = rng.choice(['size', 'prefix', 'position', 'suffix', 'overlap'])
            f, d = gen_filter(rng, ts, kind, stats)
            ts.obj.set_return_set(d.get('measure', 'OVERLAP') != 'EDIT_DISTANCE')
            kw = {'l_out_attrs': lo, 'r_out_attrs': ro, 'l_out_prefix': lpre, 'r_out_prefix': rpre, 'n_jobs': nj}
            oss = False
            if kind == 'overlap':
                oss = rng.random() < 0.5
                kw['out_sim_score'] = oss
            kw.update(progress_kw('projection', kind, len(L), len(R), nj, str(lo), str(ro)))
            case = filter_case(kind, d, ts, dict(base, entry='filter_tables', show_progress_default='show_progress' not in kw))
            with quiet():
                out = f.filter_tables(L, R, lk, rk, la, ra, **kw)
            stats.hit('oracle.projection.filter_tables.' + kind)
        except Exception as e:   # noqa: BLE001
            v.append(viol('C15', 'valid %s call raised %s: %s' % (case.get('entry'), type(e).__name__, str(e)[:100]), case))
            continue
        v += check_header_projection(case, out, L, R, lk, rk, lo, ro, lpre, rpre, oss)
    return v


# ------------------------------------------------------------------ C07 join = filter_tables ; apply_matcher
def bag_pipeline_corpus_case():
    """known finding K6: with a tokenizer left in BAG mode the filters count repeated tokens while the join converts to
    sets — jaccard_join('a a a a b', 'a b') at 0.8 returns the pair (score 1.0), SizeFilter.filter_tables drops it"""
    ts = TokSpec('ws', return_set=False)
    L = pd.DataFrame({'id': [1], 'attr': pd.Series(['a a a a b'], dtype=object)})
    R = pd.DataFrame({'id': [7], 'attr': pd.Series(['a b'], dtype=object)})
    kw = {'comp_op': '>=', 'allow_empty': True, 'n_jobs': 1}
    return 'jaccard', ts, L, R, 'id', 'id', 'attr', 'attr', 0.8, kw


def overlap_size(a, b):
    """the OVERLAP measure's similarity function: number of common tokens"""
    return len(set(a) & set(b))


PIPE_SIMS = dict(SIMS, overlap=overlap_size)


def oracle_pipeline(rng, n, stats):
    v = []
    for it in range(n + 1):
        which = rng.choice(['jaccard', 'cosine', 'dice', 'edit_distance', 'overlap', 'overlap_coefficient', 'jaccard', 'edit_distance'])
        if it == 0:
            which, ts, L, R, lk, rk, la, ra, t, kw = bag_pipeline_corpus_case()
        else:
            which, ts, L, R, lk, rk, la, ra, t, kw = gen_join_case(rng, stats, which)
        # the tokenizer "as supplied": a py_stringmatching tokenizer is in bag mode unless return_set=True was asked for
        bag_mode = which in MEASURE_OF and (it == 0 or (not ts.obj.get_return_set() and rng.random() < 0.3))
        kw.update({'allow_missing': False, 'l_out_attrs': None, 'r_out_attrs': None, 'out_sim_score': True})
        kw.pop('l_out_prefix', None)
        kw.pop('r_out_prefix', None)
        if which == 'edit_distance':
            kw['comp_op'] = '<='
        elif kw['comp_op'] == '=' and which != 'overlap':
            kw['comp_op'] = '>='            # ('=' stays for the overlap size: an integer, no rounding involved)
        case = join_case(which, ts, L, R, lk, rk, la, ra, t, kw)
        try:
            J = call_join(which, L, R, lk, rk, la, ra, ts, t, kw)
            if which == 'edit_distance':
                ts.obj.set_return_set(False)
                fk = rng.choice(['size', 'prefix', 'position'])
                tau = int(math.floor(t))
                F = FILTERS[fk](ts.obj, 'EDIT_DISTANCE', tau)
                C = F.filter_tables(L, R, lk, rk, la, ra, n_jobs=rng.choice([1, 2]), show_progress=False)
                P = ssj.apply_matcher(C, 'l_' + lk, 'r_' + rk, L, R, lk, rk, la, ra, None, LEV_REAL, tau, kw['comp_op'], n_jobs=rng.choice([1, 2]), show_progress=False)
            else:
                ts.obj.set_return_set(not bag_mode)
                fk = 'size' if it == 0 else rng.choice(['size', 'prefix', 'position', 'overlap'])
                if which == 'overlap_coefficient':
                    fk = 'overlap'       # the only safe filter for the overlap coefficient (a positive score needs a common token)
                if fk == 'overlap':
                    from py_stringsimjoin.filter.overlap_filter import OverlapFilter
                    F = OverlapFilter(ts.obj, 1)
                elif which == 'overlap':
                    F = FILTERS[fk](ts.obj, 'OVERLAP', t)
                else:
                    F = FILTERS[fk](ts.obj, MEASURE_OF[which], t, kw.get('allow_empty', True))
                C = F.filter_tables(L, R, lk, rk, la, ra, n_jobs=rng.choice([1, 2]), show_progress=False)
                P = ssj.apply_matcher(C, 'l_' + lk, 'r_' + rk, L, R, lk, rk, la, ra, ts.obj, PIPE_SIMS[which], t, kw['comp_op'], n_jobs=rng.choice([1, 2]), show_progress=False)
        except Exception as e:   # noqa: BLE001
            v.append(viol('C15', 'valid pipeline call raised %s: %s' % (type(e).__name__, str(e)[:80]), case))
            continue
        jp = dict(zip(out_pairs(J, 'l_' + lk, 'r_' + rk), J['_sim_score']))
        pp = dict(zip(out_pairs(P, 'l_' + lk, 'r_' + rk), P['_sim_score'])) if len(P) else {}
        lval, rval = dict(zip(L[lk], L[la])), dict(zip(R[rk], R[ra]))
        case['first_stage'] = fk
        case['bag_mode'] = bool(bag_mode)
        for p in set(jp) | set(pp):
            ls, rs = lval[p[0]], rval[p[1]]
            if which == 'edit_distance':
                share = len(set(ts.tokens(ls, False)) & set(ts.tokens(rs, False))) > 0
                case = k8_case({k: x for k, x in case.items() if k not in ('pair_strings', 'true_levenshtein', 'py_stringmatching_levenshtein')},
                               which, {p[0]: ls}, {p[1]: rs}, [p])
                if p in jp and p not in pp:
                    v.append(viol('C07', 'edit-distance join result not contained in the pipeline result', case, None, list(p)))
                if share and (p in jp) != (p in pp):
                    v.append(viol('C07', 'join and pipeline disagree on a pair sharing a q-gram', case, p in pp, p in jp))
                if p in jp and p in pp and int(jp[p]) != int(pp[p]):
                    v.append(viol('C07', 'scores differ', case, int(pp[p]), int(jp[p])))
                continue
            lt, rt = ts.tokens(ls, True), ts.tokens(rs, True)
            if not lt and not rt:
                continue
            raw = PIPE_SIMS[which](set(lt), set(rt))
            if bag_mode:
                bl, br = ts.tokens(ls, False), ts.tokens(rs, False)
                repeats = len(bl) != len(set(bl)) or len(br) != len(set(br))
                if repeats:
                    # K6 explains exactly one thing: the filter (counting the bag) drops a pair the join (on sets) returns.
                    # apply_matcher's similarity functions turn token lists into sets themselves, so a pair the pipeline
                    # returns and the join does not, or a different score, is NOT explained by it.
                    opb = OPS[kw['comp_op']]
                    if p in jp and p not in pp:
                        v.append(viol('C07', 'bag-mode tokenizer: join (on sets) and %s-filter pipeline (on bags) disagree on a pair with repeated tokens' % fk,
                                      dict(case, bag_mode_repeats=True, pair=[str(p[0]), str(p[1])]), p in pp, p in jp))
                    elif opb(raw, t) != opb(round(raw, 4), t):
                        pass          # straddling pair: excluded by the property
                    elif p in pp and p not in jp:
                        v.append(viol('C07', 'bag-mode tokenizer: the %s-filter pipeline returns a pair the join does not (score %r, t %r)' % (fk, raw, t),
                                      dict(case, pair=[str(p[0]), str(p[1])]), True, False))
                    elif p in jp and round(float(pp[p]), 4) != float(jp[p]):
                        v.append(viol('C07', 'bag-mode tokenizer: pipeline score rounded to 4 decimals differs from the join score',
                                      dict(case, pair=[str(p[0]), str(p[1])]), round(float(pp[p]), 4), float(jp[p])))
                    continue
                lt, rt = bl, br
            raw_list = PIPE_SIMS[which](lt, rt)      # what apply_matcher computes: py_stringmatching on the token LISTS
            op = OPS[kw['comp_op']]
            if op(raw, t) != op(round(raw, 4), t) or op(raw_list, t) != op(round(raw_list, 4), t):
                continue          # straddling pair (raw and rounded score on different sides of t): excluded by the property
            if (p in jp) != (p in pp):
                v.append(viol('C07', 'join and %s-filter pipeline disagree on pair (score %r, t %r)' % (fk, raw, t), case, p in pp, p in jp))
            elif p in jp and round(float(pp[p]), 4) != (float(jp[p]) if which in MEASURE_OF else round(float(jp[p]), 4)):
                v.append(viol('C07', 'pipeline score rounded to 4 decimals differs from the join score', case, round(float(pp[p]), 4), float(jp[p])))
    return v


# ------------------------------------------------------------------ C10 schedule / presentation independence
def rows_multiset(out, drop=('_id',)):
    """multiset of value rows; `_sim_score` compared numerically (1 and 1.0 are the same score: which of the two a
    frame holds depends on pandas' dtype inference over the concatenated chunks, not on the library)"""
    cols = [c for c in out.columns if c not in drop]
    sj = cols.index('_sim_score') if '_sim_score' in cols else -1
    res = []
    for r in out[cols].itertuples(index=False, name=None):
        cs = [cell(x) for x in r]
        if sj >= 0 and isinstance(cs[sj], dict) and 'i' in cs[sj]:
            cs[sj] = {'f': f2hex(float(cs[sj]['i']))}
        res.append(json.dumps(cs))
    return sorted(res)


def straddling_only(which, ts, L, R, lk, rk, la, ra, t, kw, a, b):
    """For jaccard / cosine / dice: do two results differ ONLY in pairs whose raw similarity and its 4-decimal rounding
    disagree about the comparison (known finding K5: such a pair is returned iff the position filter happens to let
    it through, which depends on the per-chunk token order)?  Returns (bool, differing key pairs)."""
    if which not in MEASURE_OF:
        return False, []
    lcol, rcol = kw.get('l_out_prefix', 'l_') + lk, kw.get('r_out_prefix', 'r_') + rk
    pa, pb = set(out_pairs(a, lcol, rcol)), set(out_pairs(b, lcol, rcol))
    diff = sorted(pa ^ pb, key=str)
    if not diff:
        return False, []
    # rows of the pairs both results contain must be identical (values, scores), otherwise something else differs too
    cols = [c for c in a.columns if c != '_id']
    if list(b.columns) != list(a.columns):
        return False, diff
    rows_a = {p: json.dumps([cell(x) for x in r]) for p, r in zip(out_pairs(a, lcol, rcol), a[cols].itertuples(index=False, name=None))}
    rows_b = {p: json.dumps([cell(x) for x in r]) for p, r in zip(out_pairs(b, lcol, rcol), b[cols].itertuples(index=False, name=None))}
    if any(rows_a[p] != rows_b[p] for p in pa & pb):
        return False, diff
    lval = {keyv(k): x for k, x in zip(L[lk], L[la])}
    rval = {keyv(k): x for k, x in zip(R[rk], R[ra])}
    op = OPS[kw.get('comp_op', '>=')]
    for (x, y) in diff:
        ls, rs = lval.get(x), rval.get(y)
        if is_missing(ls) or is_missing(rs):
            return False, diff
        A, B = set(ts.tokens(ls, True)), set(ts.tokens(rs, True))
        raw = SIMS[which](A, B)
        if op(raw, t) == op(round(raw, 4), t):
            return False, diff
    return True, diff


def k8_schedule_case(case, which, L, R, lk, rk, la, ra, kw, a, b):
    """edit-distance join: two results differ in a pair on which the dependency's Levenshtein is wrong (K8)"""
    if which != 'edit_distance':
        return case
    lcol, rcol = kw.get('l_out_prefix', 'l_') + lk, kw.get('r_out_prefix', 'r_') + rk
    diff = set(out_pairs(a, lcol, rcol)) ^ set(out_pairs(b, lcol, rcol))
    lval = {keyv(k): x for k, x in zip(L[lk], L[la])}
    rval = {keyv(k): x for k, x in zip(R[rk], R[ra])}
    return k8_case(case, which, lval, rval, diff)


def straddling_corpus_case():
    """a fixed input on which the jaccard join at 0.6667 returns (1, 10) with n_jobs = 1 and nothing with n_jobs = 2
    (raw 2/3 < 0.6667 <= round(2/3, 4)): known finding K5"""
    ts = TokSpec('ws', return_set=True)
    L = pd.DataFrame({'id': [1], 'attr': pd.Series(['x s1 s2 s3 s4'], dtype=object)})
    R = pd.DataFrame({'id': [10, 11, 12, 13, 14, 15],
                      'attr': pd.Series(['y s1 s2 s3 s4', 's1 s2 s3 s4 z', 'x y', 'x y', 'x y', 'x y'], dtype=object)})
    kw = {'comp_op': '>=', 'allow_empty': True, 'allow_missing': False, 'l_out_attrs': None, 'r_out_attrs': None,
          'l_out_prefix': 'l_', 'r_out_prefix': 'r_', 'out_sim_score': True, 'n_jobs': 1}
    return 'jaccard', ts, L, R, 'id', 'id', 'attr', 'attr', 0.6667, kw


def relabel(rng, n):
    """new row labels: unique in any order, or repeated (what pd.concat of parts without ignore_index gives)"""
    if n > 1 and rng.random() < 0.3:
        k = rng.randint(1, n - 1)
        return [i % k for i in range(n)]
    return rng.sample(range(1000), n)


def oracle_schedule(rng, n, stats):
    v = []
    # fixed corpus first: the token-less / missing-value tables of C09 under every flag combination, serial vs chunked
    for (which, ts, L, R, lk, rk, la, ra, t, kw) in empties_corpus():
        if kw['n_jobs'] == 1:
            continue
        try:
            a = call_join(which, L, R, lk, rk, la, ra, ts, t, dict(kw, n_jobs=1))
            b = call_join(which, L, R, lk, rk, la, ra, ts, t, kw)
        except Exception as e:   # noqa: BLE001
            v.append(viol('C15', 'valid join call raised %s' % type(e).__name__, join_case(which, ts, L, R, lk, rk, la, ra, t, kw)))
            continue
        if rows_multiset(a) != rows_multiset(b):
            v.append(viol('C10', '%s_join result depends on n_jobs (%d vs 1)' % (which, kw['n_jobs']), join_case(which, ts, L, R, lk, rk, la, ra, t, kw), len(a), len(b)))
    for it in range(n + 1):
        if it == 0:
            which, ts, L, R, lk, rk, la, ra, t, kw = straddling_corpus_case()
        else:
            which, ts, L, R, lk, rk, la, ra, t, kw = gen_join_case(rng, stats, n_jobs_choices=(1,))
        case = join_case(which, ts, L, R, lk, rk, la, ra, t, kw)
        try:
            base = call_join(which, L, R, lk, rk, la, ra, ts, t, kw)
        except Exception as e:   # noqa: BLE001
            v.append(viol('C15', 'valid join call raised %s' % type(e).__name__, case))
            continue
        ref = rows_multiset(base)
        if list(base['_id']) != list(range(len(base))):
            v.append(viol('C10', '_id is not 0..n-1', case))
        for nj in ([2, 3, 6] if it == 0 else rng.sample([2, 3, 4, -1, -2, 50, 0, -40], 3)):
            o = call_join(which, L, R, lk, rk, la, ra, ts, t, dict(kw, n_jobs=nj))
            if rows_multiset(o) != ref:
                so, diff = straddling_only(which, ts, L, R, lk, rk, la, ra, t, kw, base, o)
                v.append(viol('C10', '%s_join result depends on n_jobs (%d vs 1)%s' % (which, nj, ' — only in straddling pairs' if so else ''),
                              dict(k8_schedule_case(case, which, L, R, lk, rk, la, ra, kw, base, o), n_jobs=nj, straddling_only=so,
                                   differing_pairs=[list(map(str, d)) for d in diff[:5]]), len(ref), len(o)))
            if list(o['_id']) != list(range(len(o))):
                v.append(viol('C10', '_id is not 0..n-1 with n_jobs=%d' % nj, dict(case, n_jobs=nj)))
        # permutation of rows, index relabelling, unrelated columns, repetition
        L2 = L.sample(frac=1.0, random_state=rng.randint(0, 10 ** 6)) if len(L) else L
        R2 = R.sample(frac=1.0, random_state=rng.randint(0, 10 ** 6)) if len(R) else R
        L2 = L2.copy()
        R2 = R2.copy()
        L2.index = relabel(rng, len(L2))
        L2['zz_unrelated'] = range(len(L2))
        R2.insert(0, 'aa_unrelated', ['q'] * len(R2))
        o = call_join(which, L2, R2, lk, rk, la, ra, ts, t, kw)
        if rows_multiset(o) != ref:
            so, diff = straddling_only(which, ts, L, R, lk, rk, la, ra, t, kw, base, o)
            v.append(viol('C10', '%s_join result depends on row order / index labels / unrelated columns%s' % (which, ' — only in straddling pairs' if so else ''),
                          dict(case, straddling_only=so, differing_pairs=[list(map(str, d)) for d in diff[:5]]), len(ref), len(o)))
        o = call_join(which, L, R, lk, rk, la, ra, ts, t, kw)
        if rows_multiset(o) != ref:
            v.append(viol('C10', '%s_join result differs on repetition' % which, case))
    # filters and matcher
    for _ in range(n // 2):
        kind = rng.choice(['size', 'overlap', 'prefix', 'position', 'suffix'])
        ts = gen_tokenizer(rng)
        f, d = gen_filter(rng, ts, kind, stats)
        L, R, lk, rk, la, ra = gen_join_frames(rng, ts, stats)
        case = filter_case(kind, d, ts, {'ltable': frame_to_case(L), 'rtable': frame_to_case(R), 'l_key': lk, 'r_key': rk, 'l_attr': la, 'r_attr': ra})
        try:
            base = f.filter_tables(L, R, lk, rk, la, ra, show_progress=False)
            ref = rows_multiset(base)
            if kind in ('size', 'overlap'):
                for nj in (2, 3, 50):
                    o = f.filter_tables(L, R, lk, rk, la, ra, n_jobs=nj, show_progress=False)
                    if rows_multiset(o) != ref:
                        v.append(viol('C10', '%sFilter.filter_tables depends on n_jobs' % kind, dict(case, n_jobs=nj), len(ref), len(o)))
            L2 = L.sample(frac=1.0, random_state=rng.randint(0, 10 ** 6)).copy() if len(L) else L.copy()
            R2 = R.sample(frac=1.0, random_state=rng.randint(0, 10 ** 6)).copy() if len(R) else R.copy()
            R2.index = relabel(rng, len(R2))
            L2['zz_unrelated'] = 1.5
            o = f.filter_tables(L2, R2, lk, rk, la, ra, show_progress=False)
            if rows_multiset(o) != ref:
                v.append(viol('C10', '%sFilter.filter_tables depends on row order / labels / unrelated columns' % kind, case, len(ref), len(o)))
            C, clk, crk = gen_candset(rng, L, R, lk, rk, stats)
            c1 = f.filter_candset(C, clk, crk, L, R, lk, rk, la, ra, show_progress=False)
            for nj in (2, 3, 50):
                c2 = f.filter_candset(C, clk, crk, L, R, lk, rk, la, ra, n_jobs=nj, show_progress=False)
                if rows_multiset(c2, drop=()) != rows_multiset(c1, drop=()):
                    v.append(viol('C10', 'filter_candset depends on n_jobs', dict(case, candset=frame_to_case(C), n_jobs=nj)))
        except Exception as e:   # noqa: BLE001
            v.append(viol('C15', 'valid filter call raised %s: %s' % (type(e).__name__, str(e)[:80]), case))
    return v


# ------------------------------------------------------------------ C12 inputs untouched / history independence
def snapshot(df):
    return (frame(df), [str(t) for t in df.dtypes]) if isinstance(df, pd.DataFrame) else None


def oracle_history(rng, n, stats):
    v = []
    for _ in range(n):
        toks = [gen_tokenizer(rng, qgram=True), gen_tokenizer(rng, qgram=False)]
        L, R, lk, rk, la, ra = gen_join_frames(rng, toks[0], stats)
        snapL, snapR = snapshot(L), snapshot(R)
        history = []
        for step in range(rng.randint(2, 6)):
            tid = rng.randrange(2)
            ts = toks[tid]
            kind = rng.choice(['join', 'join', 'filter', 'matcher', 'profile', 'join', 'filter'])
            if step > 0 and rng.random() < 0.3:
                # between two calls the caller re-configures the shared tokenizer object through its own setters; the next
                # call must behave like the same call with a fresh tokenizer configured that way
                how = ts.reconfigure(rng)
                history.append('tokenizer %d: %s' % (tid, how))
                stats.hit('oracle.history.reconfigured')
                if ts.kind != 'qgram' and kind == 'join':
                    pass
            flag0 = ts.obj.get_return_set()
            desc = None
            try:
                if kind == 'join':
                    which = rng.choice(list(JOINS) if ts.kind == 'qgram' else [w for w in JOINS if w != 'edit_distance'])
                    if which == 'edit_distance':
                        t, op = rng.choice([1, 2]), '<='
                    elif which == 'overlap':
                        t, op = rng.choice([1, 2]), '>='
                    else:
                        t, op = rng.choice([0.3, 0.5, 0.8]), '>='
                    kw = {'comp_op': op, 'allow_missing': rng.random() < 0.3, 'n_jobs': rng.choice([1, 2])}
                    if which == 'edit_distance' and rng.random() < 0.5:
                        # the default-argument tokenizer shared by all edit_distance_join calls
                        out = ssj.edit_distance_join(L, R, lk, rk, la, ra, t, show_progress=False, **kw)
                        iso = ssj.edit_distance_join(case_to_frame(frame_to_case(L)), case_to_frame(frame_to_case(R)), lk, rk, la, ra, t,
                                                     tokenizer=QgramTokenizer(qval=2), show_progress=False, **kw)
                        desc = ('edit_distance(default tokenizer)', t, kw)
                    else:
                        out = call_join(which, L, R, lk, rk, la, ra, ts, t, kw)
                        fresh = case_to_tok(dict(tok_to_case(ts), return_set=flag0))
                        iso = call_join(which, case_to_frame(frame_to_case(L)), case_to_frame(frame_to_case(R)), lk, rk, la, ra, fresh, t, kw)
                        desc = (which, t, kw)
                    if rows_multiset(out) != rows_multiset(iso):
                        v.append(viol('C12', 'result of call %d (%s) differs from the same call in isolation' % (step, desc[0]),
                                      {'entry': 'history', 'history': history + [str(desc)], 'ltable': frame_to_case(L), 'rtable': frame_to_case(R),
                                       'tokenizers': [tok_to_case(x) for x in toks]}))
                elif kind == 'filter':
                    fk = rng.choice(['size', 'prefix', 'position', 'suffix', 'overlap'])
                    f, d = gen_filter(rng, ts, fk, stats)
                    twin = copy.deepcopy(f)          # the filter as constructed, never called (with its own tokenizer object)
                    out = f.filter_tables(L, R, lk, rk, la, ra, show_progress=False)
                    C, clk, crk = gen_candset(rng, L, R, lk, rk, stats)
                    snapC = snapshot(C)
                    oc = f.filter_candset(C, clk, crk, L, R, lk, rk, la, ra, show_progress=False)
                    if snapshot(C) != snapC:
                        v.append(viol('C12', 'filter_candset modified the candidate set', {'entry': 'history', 'history': history + [fk]}))
                    # the same calls in isolation: each on a fresh filter object and fresh tables
                    hcase = {'entry': 'history', 'history': history + ['filter ' + fk], 'filter': d, 'ltable': frame_to_case(L), 'rtable': frame_to_case(R),
                             'candset': frame_to_case(C), 'tokenizers': [tok_to_case(x) for x in toks]}
                    fl, fr = case_to_frame(frame_to_case(L)), case_to_frame(frame_to_case(R))
                    iso_c = copy.deepcopy(twin).filter_candset(case_to_frame(frame_to_case(C)), clk, crk, fl, fr, lk, rk, la, ra, show_progress=False)
                    if rows_multiset(oc, drop=()) != rows_multiset(iso_c, drop=()):
                        v.append(viol('C12', '%s filter_candset after filter_tables on the same filter object differs from the same call in isolation' % fk,
                                      hcase, len(iso_c), len(oc)))
                    lp, rp = present_rows(L, lk, la), present_rows(R, rk, ra)
                    for _i in range(min(12, len(lp) * len(rp))):
                        (_a, ls), (_b, rs) = rng.choice(lp), rng.choice(rp)
                        if not isinstance(ls, str) or not isinstance(rs, str):
                            continue
                        got, iso = bool(f.filter_pair(ls, rs)), bool(copy.deepcopy(twin).filter_pair(ls, rs))
                        if got != iso:
                            v.append(viol('C12', '%s filter_pair after other calls on the same filter object differs from the same call in isolation' % fk,
                                          dict(hcase, strings=[ls, rs]), iso, got))
                            break
                    changed = sorted(k for k in set(obj_state(f)) | set(obj_state(twin)) if k != 'tokenizer' and
                                     (k not in obj_state(f) or k not in obj_state(twin) or repr(obj_state(f)[k]) != repr(obj_state(twin)[k])))
                    if changed and not any(x['what'].startswith('%s filter_pair after' % fk) for x in v[-1:]):
                        # the calls left something on the filter object (a parameter re-written, a cache): harmless unless a
                        # later result depends on it — search a larger pool of pairs for one where it does
                        pool = [x for x in gen_strings_for(rng, ts, 60) if isinstance(x, str)]
                        for ls in pool:
                            hit = False
                            for rs in pool:
                                got, iso = bool(f.filter_pair(ls, rs)), bool(copy.deepcopy(twin).filter_pair(ls, rs))
                                if got != iso:
                                    v.append(viol('C12', '%s filter_pair after other calls on the same filter object differs from the same call in isolation' % fk,
                                                  dict(hcase, strings=[ls, rs], filter_attributes_changed=changed), iso, got))
                                    hit = True
                                    break
                            if hit:
                                break
                        stats.hit('oracle.history.filter_object_changed')
                    out2 = f.filter_tables(L, R, lk, rk, la, ra, show_progress=False)
                    iso_t = copy.deepcopy(twin).filter_tables(fl, fr, lk, rk, la, ra, show_progress=False)
                    if rows_multiset(out2) != rows_multiset(iso_t) or rows_multiset(out) != rows_multiset(iso_t):
                        v.append(viol('C12', '%s filter_tables on a used filter object differs from the same call in isolation' % fk, hcase, len(iso_t), len(out2)))
                    desc = ('filter ' + fk,)
                elif kind == 'matcher':
                    C, clk, crk = gen_candset(rng, L, R, lk, rk, stats)
                    snapC = snapshot(C)
                    ssj.apply_matcher(C, clk, crk, L, R, lk, rk, la, ra, ts.obj, Jaccard().get_raw_score, 0.3, show_progress=False)
                    if snapshot(C) != snapC:
                        v.append(viol('C12', 'apply_matcher modified the candidate set', {'entry': 'history', 'history': history + ['matcher']}))
                    desc = ('matcher',)
                else:
                    ssj.profile_table_for_join(L)        # tables of any shape, also without rows (repair F14)
                    ssj.dataframe_column_to_str(L, la, inplace=False)
                    desc = ('profile+convert',)
            except Exception as e:   # noqa: BLE001
                v.append(viol('C15', 'valid call in a history raised %s: %s' % (type(e).__name__, str(e)[:80]),
                              {'entry': 'history', 'history': history + [str(desc or kind)], 'ltable': frame_to_case(L), 'rtable': frame_to_case(R)}))
                ts.obj.set_return_set(flag0)
            history.append(str(desc))
            if ts.obj.get_return_set() != flag0:
                v.append(viol('C12', 'tokenizer return_set flag not restored after %s' % (desc,), {'entry': 'history', 'history': history,
                              'ltable': frame_to_case(L), 'rtable': frame_to_case(R), 'tokenizers': [tok_to_case(x) for x in toks]}, flag0, ts.obj.get_return_set()))
                ts.obj.set_return_set(flag0)
            if snapshot(L) != snapL or snapshot(R) != snapR:
                v.append(viol('C12', 'input table modified by %s' % (desc,), {'entry': 'history', 'history': history}))
                break
        stats.hit('oracle.history.len', len(history))
    return v


def obj_state(o):
    """attribute dictionary of an object, also when its class uses __slots__"""
    d = dict(getattr(o, '__dict__', {}) or {})
    for c in type(o).__mro__:
        for k in getattr(c, '__slots__', ()) or ():
            if isinstance(k, str) and hasattr(o, k):
                d[k] = getattr(o, k)
    return d


def oracle_filter_objects(rng, n, stats):
    """C12 for filter objects: a filter is constructed once and used for many calls (filter_tables, filter_candset,
    filter_pair, on the same or on other tables).  Every call on the USED object is compared with the same call on a
    copy of the object as it was constructed (its own tokenizer object, fresh tables): anything a call writes onto the
    object — a parameter normalised in place, a cache valid for the first tables only — shows as a difference."""
    v = []
    for _ in range(n):
        ts = gen_tokenizer(rng, qgram=True if rng.random() < 0.5 else None)
        kind = rng.choice(['size', 'prefix', 'position', 'suffix', 'overlap'])
        if kind != 'overlap' and ts.kind == 'qgram' and rng.random() < 0.5:
            m, t = 'EDIT_DISTANCE', rng.choice([0.5, 1.5, 2.5, 2.7, 1, 2, 3.0])
            f = FILTERS[kind](ts.obj, m, t, rng.random() < 0.6, rng.random() < 0.3)
            d = {'kind': kind, 'measure': m, 'threshold': t, 'allow_empty': f.allow_empty, 'allow_missing': f.allow_missing}
        else:
            f, d = gen_filter(rng, ts, kind, stats)
        m = d.get('measure', 'OVERLAP')
        ts.obj.set_return_set(m != 'EDIT_DISTANCE')
        twin = copy.deepcopy(f)
        calls = []
        hist = []
        prev_frames = None
        for step in range(rng.randint(2, 4)):
            if step > 0 and m not in ('EDIT_DISTANCE',) and rng.random() < 0.35:
                # the caller re-configures the tokenizer the filter holds (not its mode); the pristine copy's tokenizer
                # gets the same setter call
                mode0 = ts.obj.get_return_set()
                how = ts.reconfigure(rng)
                if ts.last_reconf[0] != 'set_return_set':
                    getattr(twin.tokenizer, ts.last_reconf[0])(ts.last_reconf[1])
                    hist.append('tokenizer: ' + how)
                    stats.hit('oracle.filter_objects.tokenizer_reconfigured')
                ts.obj.set_return_set(mode0)
            L, R, lk, rk, la, ra = gen_join_frames(rng, ts, stats, nonstring=False)
            if prev_frames is not None and rng.random() < 0.5:
                L, R, lk, rk, la, ra = prev_frames         # the strings seen before, possibly under another configuration
            prev_frames = (L, R, lk, rk, la, ra)
            hcase = {'entry': 'filter-object-history', 'kind': kind, 'filter': d, 'tokenizer': tok_to_case(ts), 'earlier_calls': list(hist),
                     'ltable': frame_to_case(L), 'rtable': frame_to_case(R), 'l_key': lk, 'r_key': rk, 'l_attr': la, 'r_attr': ra}
            op = rng.choice(['tables', 'tables', 'candset', 'pairs'])
            try:
                if op == 'tables':
                    nj = rng.choice([1, 1, 2])
                    got = f.filter_tables(L, R, lk, rk, la, ra, n_jobs=nj, show_progress=False)
                    iso = copy.deepcopy(twin).filter_tables(case_to_frame(frame_to_case(L)), case_to_frame(frame_to_case(R)), lk, rk, la, ra, n_jobs=nj, show_progress=False)
                    differ = rows_multiset(got) != rows_multiset(iso)
                elif op == 'candset':
                    C, clk, crk = gen_candset(rng, L, R, lk, rk, stats)
                    hcase['candset'] = frame_to_case(C)
                    got = f.filter_candset(C, clk, crk, L, R, lk, rk, la, ra, show_progress=False)
                    iso = copy.deepcopy(twin).filter_candset(case_to_frame(frame_to_case(C)), clk, crk, case_to_frame(frame_to_case(L)),
                                                           case_to_frame(frame_to_case(R)), lk, rk, la, ra, show_progress=False)
                    differ = rows_multiset(got, drop=()) != rows_multiset(iso, drop=())
                else:
                    differ = False
                    for (_a, ls) in present_rows(L, lk, la):
                        for (_b, rs) in present_rows(R, rk, ra):
                            if bool(f.filter_pair(ls, rs)) != bool(copy.deepcopy(twin).filter_pair(ls, rs)):
                                differ, hcase['strings'] = True, [ls, rs]
                                break
                        if differ:
                            break
            except Exception as e:   # noqa: BLE001
                v.append(viol('C15', 'valid %s filter call (%s) in a history on one filter object raised %s: %s' % (kind, op, type(e).__name__, str(e)[:80]), hcase))
                break
            if differ:
                v.append(viol('C12', '%s filter %s call on a used filter object differs from the same call on the filter as constructed' % (kind, op), hcase))
                break
            hist.append(op)
            stats.hit('oracle.filter_objects.' + op)
        else:
            changed = sorted(k for k in set(obj_state(f)) | set(obj_state(twin)) if k != 'tokenizer' and
                             (k not in obj_state(f) or k not in obj_state(twin) or repr(obj_state(f)[k]) != repr(obj_state(twin)[k])))
            if changed:
                # something was left on the object: harmless unless a later result depends on it — search for a pair where it does
                stats.hit('oracle.filter_objects.attributes_changed')
                pool = [x for x in gen_strings_for(rng, ts, 70) if isinstance(x, str)]
                hit = None
                for ls in pool:
                    for rs in pool:
                        if bool(f.filter_pair(ls, rs)) != bool(copy.deepcopy(twin).filter_pair(ls, rs)):
                            hit = [ls, rs]
                            break
                    if hit:
                        break
                if hit:
                    v.append(viol('C12', '%s filter_pair on a used filter object differs from the same call on the filter as constructed' % kind,
                                  {'entry': 'filter-object-history', 'kind': kind, 'filter': d, 'tokenizer': tok_to_case(ts), 'earlier_calls': list(hist),
                                   'strings': hit, 'filter_attributes_changed': changed}, None, None))
    return v


# ------------------------------------------------------------------ C13 metamorphic laws
def k8_case(case, which, lval, rval, offending):
    """for the edit-distance join: if one of the offending pairs is a pair on which the dependency's Levenshtein differs from
    the true distance (known finding K8), say so in the case"""
    if which != 'edit_distance':
        return case
    for x in offending:
        ls, rs = lval.get(x[0]), rval.get(x[1])
        if isinstance(ls, str) and isinstance(rs, str):
            d, dr = LEV(ls, rs), LEV_REAL(ls, rs)
            if d != dr:
                return dict(case, pair_strings=[ls, rs], true_levenshtein=d, py_stringmatching_levenshtein=int(dr))
    return case


def check_laws(which, ts, L, R, lk, rk, la, ra, t, kw, rng):
    """the three C13 laws on one pair of tables (oracle-free); returns violations"""
    v = []
    kw = dict(kw)
    kw.update({'allow_missing': False, 'l_out_attrs': None, 'r_out_attrs': None, 'out_sim_score': True})
    kw.pop('l_out_prefix', None)
    kw.pop('r_out_prefix', None)
    case = join_case(which, ts, L, R, lk, rk, la, ra, t, kw)
    ed = which == 'edit_distance'
    try:
        A = call_join(which, L, R, lk, rk, la, ra, ts, t, kw)
        B = call_join(which, R, L, rk, lk, ra, la, ts, t, kw)
        a = sorted((str(p[0]), str(p[1]), float(s)) for p, s in zip(out_pairs(A, 'l_' + lk, 'r_' + rk), A['_sim_score']))
        b = sorted((str(p[1]), str(p[0]), float(s)) for p, s in zip(out_pairs(B, 'l_' + rk, 'r_' + lk), B['_sim_score']))
        if a != b:
            lval0, rval0 = dict(zip(map(str, L[lk]), L[la])), dict(zip(map(str, R[rk]), R[ra]))
            v.append(viol('C13', '%s_join: swapping the tables changes the result' % which, k8_case(case, which, lval0, rval0, set(a) ^ set(b)), len(a), len(b)))
        # operator partition
        ge, gt, eq = ('<=', '<', '=') if ed else ('>=', '>', '=')
        res = {}
        for o in (ge, gt, eq):
            X = call_join(which, L, R, lk, rk, la, ra, ts, t, dict(kw, comp_op=o))
            res[o] = sorted((str(p[0]), str(p[1]), float(s)) for p, s in zip(out_pairs(X, 'l_' + lk, 'r_' + rk), X['_sim_score']))
        lval, rval = dict(zip(map(str, L[lk]), L[la])), dict(zip(map(str, R[rk]), R[ra]))

        def excluded(p, thresholds, op_names):
            if ed or which in ('overlap', 'overlap_coefficient'):
                lt, rt = ts.tokens(lval[p[0]], True), ts.tokens(rval[p[1]], True)
                return which == 'overlap_coefficient' and not lt and not rt
            lt, rt = ts.tokens(lval[p[0]], True), ts.tokens(rval[p[1]], True)
            if not lt and not rt:
                return True
            raw = SIMS[which](set(lt), set(rt))
            return any(OPS[o](raw, th) != OPS[o](round(raw, 4), th) for th in thresholds for o in op_names)
        u = sorted(x for x in res[gt] + res[eq] if not excluded(x, [t], [ge, gt, eq]))
        g = sorted(x for x in res[ge] if not excluded(x, [t], [ge, gt, eq]))
        inter = set(x[:2] for x in res[gt] if not excluded(x, [t], [ge, gt, eq])) & set(x[:2] for x in res[eq] if not excluded(x, [t], [ge, gt, eq]))
        if u != g or inter:
            v.append(viol('C13', "%s_join: '%s' is not the disjoint union of '%s' and '%s'" % (which, ge, gt, eq),
                          k8_case(case, which, lval, rval, set(u) ^ set(g)), len(g), len(u)))
        # threshold refinement: the result at `t` against the result at a laxer threshold restricted to scores meeting `t`,
        # and the result at a stricter threshold against the restriction of the result at `t`
        if ed:
            lax, strict_t = int(math.floor(t)) + rng.randint(0, 2), max(0, int(math.floor(t)) - rng.randint(0, 2))
            meets = lambda sc, th: sc <= int(math.floor(th))       # noqa: E731
        elif which == 'overlap':
            lax, strict_t = max(1, t - rng.randint(0, 2)), t + rng.randint(0, 2)
            meets = lambda sc, th: sc >= th                        # noqa: E731
        else:
            lax, strict_t = max(1e-3, t * rng.choice([1.0, 0.9, 0.5, 0.3])), min(1.0, t + rng.choice([0.0, 0.05, 0.1, 0.3, 1e-9]))
            meets = lambda sc, th: sc >= th                        # noqa: E731
        for t1, t2 in ((lax, t), (t, strict_t)):
            Y1 = call_join(which, L, R, lk, rk, la, ra, ts, t1, dict(kw, comp_op=ge))
            Y2 = call_join(which, L, R, lk, rk, la, ra, ts, t2, dict(kw, comp_op=ge))
            y1 = sorted((str(p[0]), str(p[1]), float(s)) for p, s in zip(out_pairs(Y1, 'l_' + lk, 'r_' + rk), Y1['_sim_score']))
            y2 = sorted((str(p[0]), str(p[1]), float(s)) for p, s in zip(out_pairs(Y2, 'l_' + lk, 'r_' + rk), Y2['_sim_score']))
            s2 = sorted(x for x in y1 if meets(x[2], t2) and not excluded(x, [t1, t2], [ge]))
            y2 = sorted(x for x in y2 if not excluded(x, [t1, t2], [ge]))
            if y2 != s2:
                v.append(viol('C13', '%s_join: result at the stricter threshold %r is not the restriction of the result at %r' % (which, t2, t1),
                              k8_case(case, which, lval, rval, set(y2) ^ set(s2)), len(s2), len(y2)))
    except Exception as e:   # noqa: BLE001
        v.append(viol('C15', 'valid join call raised %s: %s' % (type(e).__name__, str(e)[:80]), case))
    return v


def oracle_laws(rng, n, stats, datasets=False):
    v = []
    for _ in range(n):
        which, ts, L, R, lk, rk, la, ra, t, kw = gen_join_case(rng, stats, n_jobs_choices=(1, 1, 2))
        v += check_laws(which, ts, L, R, lk, rk, la, ra, t, kw, rng)
    return v


# ------------------------------------------------------------------ C15 validation matrix
def exc_names(e):
    return ' or '.join(c.__name__ for c in e) if isinstance(e, tuple) else e.__name__


def oracle_validation(rng, n, stats):
    v = []
    from py_stringsimjoin.filter.overlap_filter import OverlapFilter
    for _ in range(n):
        which, ts, L, R, lk, rk, la, ra, t, kw = gen_join_case(rng, stats, n_jobs_choices=(1,))
        kw['allow_missing'] = False
        kind = rng.choice(['not_frame_l', 'not_frame_r', 'bad_tok', 'bad_key', 'bad_attr', 'bad_out', 'numeric_attr', 'dup_key', 'nan_key',
                           'thr_low', 'thr_high', 'thr_nan', 'bad_op', 'ed_nonqgram', 'nonstring_value', 'id_clash', 'valid', 'valid', 'self_join_bad_key'])
        L2, R2, ts2, t2, kw2, lk2, la2 = L, R, ts, t, dict(kw), lk, la
        rk2 = rk
        expect = None
        if kind == 'self_join_bad_key':
            # the SAME DataFrame object on both sides with two different key columns, one of them not a key (duplicates /
            # a missing value): each side's key is validated on its own
            if len(L) < 2 or L is R:
                continue
            L2 = L.copy()
            L2['alt'] = pd.Series([L2[lk].iloc[0]] * len(L2) if rng.random() < 0.5 else [None] + list(L2[lk].iloc[1:]), dtype=object, index=L2.index)
            R2 = L2
            kw2['l_out_attrs'], kw2['r_out_attrs'] = None, None
            if rng.random() < 0.5:
                lk2, rk2 = lk, 'alt'
            else:
                lk2, rk2 = 'alt', lk
            expect = AssertionError
        if kind == 'not_frame_l':
            L2, expect = [1, 2], TypeError
        elif kind == 'not_frame_r':
            R2, expect = None, TypeError
        elif kind == 'bad_tok':
            expect = TypeError
        elif kind == 'bad_key':
            lk2, expect = 'nokey', AssertionError
        elif kind == 'bad_attr':
            la2, expect = 'noattr', AssertionError
        elif kind == 'bad_out':
            # one unknown name, alone or next to names that exist, on either side, at any position
            side, T = rng.choice([('l_out_attrs', L), ('r_out_attrs', R)])
            lst = [rng.choice(list(T.columns)) for _ in range(rng.choice([0, 1, 1, 2]))] + ['nosuch']
            rng.shuffle(lst)
            kw2[side], expect = lst, AssertionError
        elif kind == 'numeric_attr':
            if len(L) == 0:
                continue
            L2 = L.copy()
            L2[la] = list(range(len(L2)))
            expect = AssertionError
        elif kind == 'dup_key':
            if len(R) < 2:
                continue
            R2 = R.copy()
            R2[rk] = [R2[rk].iloc[0]] * len(R2)
            expect = AssertionError
        elif kind == 'nan_key':
            if len(L) < 1:
                continue
            L2 = L.copy()
            L2[lk] = pd.Series([None] + list(L2[lk].iloc[1:]), dtype=object, index=L2.index)
            expect = AssertionError
        elif kind == 'thr_low':
            t2 = rng.choice([-1, -0.5]) if which == 'edit_distance' else rng.choice([0, 0.0, -0.3, -1])
            expect = AssertionError
        elif kind == 'thr_high':
            if which in ('edit_distance', 'overlap'):
                continue
            t2, expect = rng.choice([1.0000000000000002, 1.5, 2]), AssertionError
        elif kind == 'thr_nan':
            t2, expect = float('nan'), AssertionError       # NaN lies outside every measure's range
        elif kind == 'nonstring_value':
            # a present join value that is not a string (object column): the documented exception for a wrong type
            if len(R) < 1 or str(R[ra].dtype) != 'object':
                continue
            R2 = R.copy()
            R2[ra] = pd.Series([rng.choice([5, 2.5, True])] + list(R2[ra].iloc[1:]), dtype=object, index=R2.index)
            expect = (TypeError, AssertionError)      # C15 names neither class for this case: rejected mid-join today, up front is as good
        elif kind == 'id_clash':
            # VALID arguments whose output header contains the name '_id' (known finding K7: ValueError at the very end)
            kw2['l_out_prefix'], kw2['r_out_prefix'] = ('_', 'r_') if lk == 'id' else ('l_', 'r_')
            if lk != 'id':
                continue
        elif kind == 'bad_op':
            kw2['comp_op'] = rng.choice(['>=', '>', '!=']) if which == 'edit_distance' else rng.choice(['<=', '<', '!=', '=='])
            expect = AssertionError
        elif kind == 'ed_nonqgram':
            if which != 'edit_distance':
                continue
            ts2, expect = TokSpec('ws', return_set=rng.random() < 0.5), AssertionError
        stats.hit('oracle.validation.' + kind)
        tok_arg = 'not a tokenizer' if kind == 'bad_tok' else ts2.obj
        flag0 = ts2.obj.get_return_set()
        snapL, snapR = snapshot(L2), snapshot(R2)
        ra2 = la2 if kind == 'self_join_bad_key' else ra
        case = dict(join_case(which, ts2, L2 if isinstance(L2, pd.DataFrame) else None, R2 if isinstance(R2, pd.DataFrame) else None, lk2, rk2, la2, ra2, t2, kw2), invalid=kind)
        try:
            fn = (PUBLIC if rng.random() < 0.3 else JOINS)[which]
            kk = dict(kw2, show_progress=False)
            if which == 'edit_distance':
                out = fn(L2, R2, lk2, rk2, la2, ra2, t2, tokenizer=tok_arg, **kk)
            else:
                out = fn(L2, R2, lk2, rk2, la2, ra2, tok_arg, t2, **kk)
            got = None
        except Exception as e:    # noqa: BLE001
            got = e
        if expect is None:
            if got is not None or not isinstance(out, pd.DataFrame):
                v.append(viol('C15', 'valid %s_join call rejected/crashed: %r' % (which, got), case))
        else:
            if got is None:
                v.append(viol('C15', 'invalid argument (%s) accepted by %s_join' % (kind, which), case, exc_names(expect), 'returned'))
            elif not isinstance(got, expect):
                v.append(viol('C15', 'invalid argument (%s): %s_join raised %s instead of %s' % (kind, which, type(got).__name__, exc_names(expect)), case, exc_names(expect), type(got).__name__))
        if ts2.obj.get_return_set() != flag0:
            v.append(viol('C15', 'tokenizer mode changed by a %s %s_join call (%s)' % ('rejected' if expect else 'valid', which, kind), case, flag0, ts2.obj.get_return_set()))
            ts2.obj.set_return_set(flag0)
        if snapshot(L2) != snapL or snapshot(R2) != snapR:
            v.append(viol('C15', 'arguments modified by a %s_join call (%s)' % (which, kind), case))
    # filter constructors and degenerate valid shapes
    for _ in range(n // 2):
        ts = gen_tokenizer(rng)
        flag0 = ts.obj.get_return_set()
        k = rng.choice(['bad_measure', 'bad_thr', 'ed_nonqgram', 'bad_tok', 'ov_thr', 'ov_op'])
        cls = rng.choice(list(FILTERS.values()))
        exp = {'bad_measure': TypeError, 'bad_thr': AssertionError, 'ed_nonqgram': AssertionError, 'bad_tok': TypeError,
               'ov_thr': AssertionError, 'ov_op': AssertionError}[k]
        try:
            if k == 'bad_measure':
                cls(ts.obj, 'TFIDF', 0.5)
            elif k == 'bad_thr':
                cls(ts.obj, rng.choice(['JACCARD', 'COSINE', 'DICE']), rng.choice([0, -0.1, 1.2, float('nan')]))
            elif k == 'ed_nonqgram':
                cls(TokSpec('ws').obj, 'EDIT_DISTANCE', 2)
            elif k == 'bad_tok':
                cls('x', 'JACCARD', 0.5)
            elif k == 'ov_thr':
                OverlapFilter(ts.obj, rng.choice([0, -1, float('nan')]))
            else:
                OverlapFilter(ts.obj, 1, rng.choice(['<', '<=', '!=']))
            v.append(viol('C15', 'filter constructor accepted an invalid argument (%s)' % k, {'entry': 'ctor', 'kind': k, 'class': cls.__name__}))
        except Exception as e:   # noqa: BLE001
            if not isinstance(e, exp):
                v.append(viol('C15', 'filter constructor raised %s instead of %s (%s)' % (type(e).__name__, exp.__name__, k), {'entry': 'ctor', 'kind': k, 'class': cls.__name__}))
        if ts.obj.get_return_set() != flag0:
            v.append(viol('C15', 'tokenizer mode changed by a rejected constructor', {'entry': 'ctor', 'kind': k}))
    return v


# ------------------------------------------------------------------ C16 / C17
def oracle_converter(rng, n, stats, known):
    v = []
    for _ in range(n):
        s, kind = S.gen_column(rng, stats)
        if kind == 'bool':
            continue
        vals = list(s)
        inplace = rng.random() < 0.4
        return_col = (not inplace) and rng.random() < 0.4
        mode = rng.choice(['series', 'frame'])
        case = {'entry': 'converter', 'mode': mode, 'dtype': str(s.dtype), 'values': [cell(x) for x in vals], 'inplace': inplace, 'return_col': return_col}
        present = [x for x in vals if not is_missing(x)]
        # pandas' nullable numeric dtypes are numeric columns too: today the converter raises TypeError on them (known finding
        # K9, matched by the dtype name); a converter that handles them must convert them like any numeric column
        numeric = kind in ('int', 'float_int', 'float', 'float_inf', 'float32', 'float_allnan', 'empty_float', 'nullable')
        all_int = numeric and len(present) > 0 and all(float(x).is_integer() for x in present)

        def expected(x):
            if is_missing(x):
                return None
            if not numeric:
                return x
            if kind == 'int' or all_int:
                return str(int(x))
            return str(x)
        exp_vals = [expected(x) for x in vals]
        try:
            if mode == 'series':
                res = series_to_str(s, inplace)
                holder = s
            else:
                df = pd.DataFrame({'k': list(range(len(s))), 'c': s}, index=s.index)
                res = dataframe_column_to_str(df, 'c', inplace, return_col)
                holder = df['c']
        except Exception as e:   # noqa: BLE001
            if mode == 'series' and inplace and numeric and present and isinstance(e, TypeError) and 'Invalid value' in str(e):
                # known finding K1 exactly: pandas >= 3 refuses to re-type a standalone Series in place
                stats.hit('oracle.converter.known_series_inplace')
                known.append(('C16', 'K1'))
                continue
            v.append(viol('C16', 'conversion raised %s: %s' % (type(e).__name__, str(e)[:80]), case))
            continue
        doc_exception = mode == 'series' and numeric and not present        # empty / all-NaN numeric series: object copy even if inplace
        if inplace and not doc_exception:
            if res is not True:
                v.append(viol('C16', 'inplace=True did not return True', case, True, repr(res)[:50]))
            got = list(holder)
        else:
            if mode == 'frame' and not return_col and not inplace:
                if not isinstance(res, pd.DataFrame):
                    v.append(viol('C16', 'copy mode did not return a DataFrame', case))
                    continue
                got = list(res['c'])
            elif isinstance(res, pd.Series):
                got = list(res)
            elif res is True and mode == 'frame' and inplace:
                got = list(holder)
            else:
                v.append(viol('C16', 'unexpected return value %r' % (res,), case))
                continue
            if not inplace and ([cell(x) for x in holder] != [cell(x) for x in vals] or str(holder.dtype) != str(s.dtype)):
                v.append(viol('C16', 'input modified although inplace=False', case, str(s.dtype), str(holder.dtype)))
        out_obj = holder if (inplace and not doc_exception) else (res['c'] if isinstance(res, pd.DataFrame) else (res if isinstance(res, pd.Series) else holder))
        if list(out_obj.index) != list(s.index):
            v.append(viol('C16', 'row labels of the converted column differ from the input\'s', case, list(s.index)[:6], list(out_obj.index)[:6]))
        if [None if is_missing(x) else x for x in got] != exp_vals:
            v.append(viol('C16', 'converted values differ from str(int(v)) / str(v) / missing', case, exp_vals[:6], [None if is_missing(x) else x for x in got][:6]))
    # inplace + return_col rejected
    try:
        dataframe_column_to_str(pd.DataFrame({'c': [1, 2]}), 'c', inplace=True, return_col=True)
        v.append(viol('C16', 'inplace together with return_col accepted', {'entry': 'converter', 'mode': 'frame', 'both_flags': True}))
    except Exception:     # noqa: BLE001   C16 says "rejected": whichever exception class
        pass
    return v


def oracle_profiler(rng, n, stats, big_every=20):
    v = []
    for k in range(n):
        df = S.gen_profile_frame(rng, stats, big=(k % big_every == big_every - 1))
        if rng.random() < 0.05:
            df = df.iloc[0:0]            # a table without rows is a valid argument (C15): 0 values, 0.0 %
        attrs = None if rng.random() < 0.5 else rng.sample(list(df.columns), rng.randint(0 if rng.random() < 0.15 else 1, len(df.columns)))
        use = list(df.columns) if attrs is None else attrs
        case = {'entry': 'profiler', 'frame': frame_to_case(df) if len(df) < 100 else {'rows': len(df), 'seed_case': k}, 'attrs': attrs}
        try:
            out = ssj.profile_table_for_join(df, attrs)
        except Exception as e:   # noqa: BLE001
            v.append(viol('C17', 'profile_table_for_join raised %s' % type(e).__name__, case))
            continue
        if list(out.index) != use:
            v.append(viol('C17', 'one row per profiled attribute, indexed by name', case, use, list(out.index)))
            continue
        nrows = len(df)
        if nrows == 0:
            continue          # C17 quantifies over non-empty tables; that a frame comes back for an empty one is C15's business
        if 'Unique values' not in out.columns or 'Missing values' not in out.columns:
            v.append(viol('C17', "the result lacks the 'Unique values' / 'Missing values' entries", case, None, [str(c) for c in out.columns]))
            continue
        # the comment: whatever the other column(s) are called (the property names only the two count entries)
        other = [c for c in out.columns if c not in ('Unique values', 'Missing values')]
        classes = {}
        for a in use:
            col = list(df[a])
            miss = sum(1 for x in col if is_missing(x))
            distinct = len(set(x for x in col if not is_missing(x))) + (1 if miss else 0)
            for name, c in (('Unique values', distinct), ('Missing values', miss)):
                # "the exact number (and percentage to two decimals)": `<count> (<percentage>%)`, the percentage compared as a
                # number ('60.0%' and '60.00%' are the same percentage)
                mt = PCT_ENTRY.match(str(out.loc[a, name]))
                want = round(float(c) / float(nrows) * 100, 2)
                if not mt or int(mt.group(1)) != c or abs(float(mt.group(2)) - want) > 1e-9:
                    v.append(viol('C17', "'%s' is not the exact %s count" % (name, 'distinct' if name.startswith('Unique') else 'missing'), dict(case, attr=a),
                                  '%d (%s%%)' % (c, want), out.loc[a, name]))
            com = ' '.join(str(out.loc[a, c]) for c in other)
            is_key = distinct == nrows and miss == 0
            classes.setdefault('key' if is_key else ('missing' if miss > 0 else 'plain'), []).append((a, com, distinct, miss))
        # The wording of the comment is not part of the property.  With the library's present wording (established on a
        # three-column calibration table) the phrases are tested directly; with any other wording the check is structural:
        # a recommendation / warning is a non-empty comment that no column of another class carries.
        kw_key, kw_miss = profiler_wording()
        for cls, items in classes.items():
            for a, com, distinct, miss in items:
                if kw_key is not None:
                    if (kw_key in com) != (cls == 'key'):
                        v.append(viol('C17', 'key recommendation wrong (distinct %d of %d, missing %d)' % (distinct, nrows, miss), dict(case, attr=a), cls == 'key', com))
                    if (kw_miss in com) != (cls == 'missing'):
                        v.append(viol('C17', 'ignored-rows warning wrong (missing %d of %d)' % (miss, nrows), dict(case, attr=a), cls == 'missing', com))
                else:
                    others = {c2 for k2, it2 in classes.items() if k2 != cls for (_a, c2, _d, _m) in it2}
                    if cls in ('key', 'missing') and (not com.strip() or com in others):
                        v.append(viol('C17', ('key recommendation wrong (distinct %d of %d, missing %d)' if cls == 'key' else 'ignored-rows warning wrong (missing %d of %d)')
                                      % ((distinct, nrows, miss) if cls == 'key' else (miss, nrows)), dict(case, attr=a), cls, com))
    return v


PCT_ENTRY = re.compile(r'^\s*(\d+)\s*\(\s*(\d+(?:\.\d+)?)\s*%\s*\)\s*$')
_WORDING = []


def profiler_wording():
    """(key phrase, missing phrase) if the library words its comments the way it does today, else (None, None)"""
    if not _WORDING:
        try:
            cal = ssj.profile_table_for_join(pd.DataFrame({'k': [1, 2, 3], 'm': pd.Series(['x', None, 'x'], dtype=object), 'p': [1, 1, 2]}))
            other = [c for c in cal.columns if c not in ('Unique values', 'Missing values')]
            ck, cm, cp = (' '.join(str(cal.loc[a, c]) for c in other) for a in ('k', 'm', 'p'))
            ok = 'can be used as a key' in ck and 'can be used as a key' not in cm + cp and 'will ignore' in cm and 'will ignore' not in ck + cp
            _WORDING.append(('can be used as a key', 'will ignore') if ok else (None, None))
        except Exception:     # noqa: BLE001
            _WORDING.append((None, None))
    return _WORDING[0]


# ------------------------------------------------------------------ thorough-tier extras
def oracle_real_processes(rng, n, stats):
    """C10 with REAL joblib worker processes (loky): n_jobs in {2,3} against n_jobs=1"""
    v = []
    S.patch_parallel(False)
    try:
        for _ in range(n):
            which, ts, L, R, lk, rk, la, ra, t, kw = gen_join_case(rng, stats, n_jobs_choices=(1,))
            case = join_case(which, ts, L, R, lk, rk, la, ra, t, kw)
            try:
                ref = rows_multiset(call_join(which, L, R, lk, rk, la, ra, ts, t, kw))
                for nj in (2, 3):
                    o = call_join(which, L, R, lk, rk, la, ra, ts, t, dict(kw, n_jobs=nj))
                    if rows_multiset(o) != ref:
                        v.append(viol('C10', '%s_join with real worker processes depends on n_jobs=%d' % (which, nj), dict(case, n_jobs=nj), len(ref), len(o)))
                    if list(o['_id']) != list(range(len(o))):
                        v.append(viol('C10', '_id is not 0..n-1 (real processes)', dict(case, n_jobs=nj)))
                stats.hit('oracle.real_processes.joins')
            except Exception as e:   # noqa: BLE001
                v.append(viol('C15', 'valid join with worker processes raised %s: %s' % (type(e).__name__, str(e)[:80]), case))
    finally:
        S.patch_parallel(True)
    return v


HASHSEED_SCRIPT = r'''
import sys, random, json, hashlib
sys.path.insert(0, %r)
import oracle as O
from common import Stats
rng = random.Random(%d)
st = Stats()
h = hashlib.sha256()
for _ in range(%d):
    which, ts, L, R, lk, rk, la, ra, t, kw = O.gen_join_case(rng, st)
    try:
        out = O.call_join(which, L, R, lk, rk, la, ra, ts, t, kw)
        h.update(json.dumps(O.rows_multiset(out)).encode())
    except Exception as e:
        h.update(type(e).__name__.encode())
print(h.hexdigest())
'''


def oracle_hash_seeds(seed, n, stats):
    """C10 'repeating the call in another process': the same seeded workload under two PYTHONHASHSEED values"""
    import subprocess
    here = os.path.dirname(os.path.abspath(__file__))
    digests = []
    for hs in ('1', '2', '12345'):
        env = dict(os.environ, PYTHONHASHSEED=hs, PYTHONWARNINGS='ignore')
        p = subprocess.run([sys.executable, '-c', HASHSEED_SCRIPT % (here, seed, n)], stdout=subprocess.PIPE, stderr=subprocess.PIPE, env=env, timeout=1800)
        if p.returncode != 0:
            raise RuntimeError('hash-seed subprocess failed: ' + p.stderr.decode()[-300:])
        digests.append(p.stdout.decode().strip().splitlines()[-1])
    stats.hit('oracle.hash_seeds.runs', len(digests))
    if len(set(digests)) != 1:
        return [viol('C10', 'join results differ between processes with different PYTHONHASHSEED', {'entry': 'hash_seed', 'seed': seed, 'n': n, 'digests': digests})]
    return []


def oracle_datasets(rng, stats):
    """C13 on the bundled person / books data (oracle-free laws)"""
    v = []
    A, B = ssj.load_person_dataset()
    A = A.astype({c: object for c in A.columns if A[c].dtype != 'int64' and A[c].dtype != 'float64'})
    B = B.astype({c: object for c in B.columns if B[c].dtype != 'int64' and B[c].dtype != 'float64'})
    ws = TokSpec('ws', return_set=True)
    qg = TokSpec('qgram', qval=3, return_set=True)
    runs = [('jaccard', ws, 'A.name', 'B.name', 0.3, 0.5), ('cosine', qg, 'A.name', 'B.name', 0.4, 0.6), ('dice', ws, 'A.address', 'B.address', 0.3, 0.6),
            ('overlap_coefficient', ws, 'A.address', 'B.address', 0.5, 0.9), ('overlap', ws, 'A.address', 'B.address', 1, 2)]
    lk, rk = 'A.id', 'B.id'
    for which, ts, la, ra, t1, t2 in runs:
        kw = {'comp_op': '>=', 'out_sim_score': True, 'n_jobs': 1}
        try:
            X = call_join(which, A, B, lk, rk, la, ra, ts, t1, kw)
            Y = call_join(which, B, A, rk, lk, ra, la, ts, t1, kw)
            a = sorted((str(p[0]), str(p[1]), float(s)) for p, s in zip(out_pairs(X, 'l_' + lk, 'r_' + rk), X['_sim_score']))
            b = sorted((str(p[1]), str(p[0]), float(s)) for p, s in zip(out_pairs(Y, 'l_' + rk, 'r_' + lk), Y['_sim_score']))
            if a != b:
                v.append(viol('C13', '%s_join on the person data: swapping the tables changes the result' % which, {'entry': 'dataset', 'which': which}, len(a), len(b)))
            Z = call_join(which, A, B, lk, rk, la, ra, ts, t2, kw)
            z = sorted((str(p[0]), str(p[1]), float(s)) for p, s in zip(out_pairs(Z, 'l_' + lk, 'r_' + rk), Z['_sim_score']))
            restr = sorted(x for x in a if x[2] >= t2)
            # straddling pairs (raw score just below t2 but rounding up to it) are excluded: compare only scores not within 1e-4 of t2
            if [x for x in z if abs(x[2] - t2) > 1e-4] != [x for x in restr if abs(x[2] - t2) > 1e-4]:
                v.append(viol('C13', '%s_join on the person data: threshold refinement fails (%r -> %r)' % (which, t1, t2), {'entry': 'dataset', 'which': which}, len(restr), len(z)))
            stats.hit('oracle.datasets.rows', len(X))
        except Exception as e:    # noqa: BLE001
            v.append(viol('C15', 'valid join on the person data raised %s: %s' % (type(e).__name__, str(e)[:80]), {'entry': 'dataset', 'which': which}))
    return v


def oracle_size_grid(nmax, stats):
    """C14/C04 on the arithmetic kernel, EXHAUSTIVELY over token-count pairs up to nmax and a dense threshold grid:
    the size window keeps every count pair that can reach the threshold and drops every pair whose best attainable
    similarity is more than 1e-4 below it (real get_size_lower_bound / get_size_upper_bound)."""
    from py_stringsimjoin.filter import filter_utils as FU
    from fractions import Fraction as F
    v = []
    ths = sorted(set([k / 100 for k in range(1, 101)] + [k / 1000 for k in range(1, 1000, 9)] + [1 / 3, 2 / 3, 1 / 7, 0.28, 0.56] +
                     [0.00011, 0.0005, 0.003, 0.00707, 0.00708]))
    cnt = 0
    one_empty_seen = False
    from py_stringmatching import WhitespaceTokenizer as _WS
    _tok = _WS(return_set=True)

    def confirmed(m, t, n, k, want_dropped):
        """the grid reads the private helpers get_size_lower/upper_bound under the convention `lo <= k <= hi`; a hit is only
        reported if the PUBLIC SizeFilter.filter_pair behaves that way on strings with n and k tokens (the window is
        computed from the left count)"""
        try:
            f = SIZE(_tok, m, t)
            return bool(f.filter_pair(' '.join('w%d' % i for i in range(n)), ' '.join('w%d' % i for i in range(k)))) == want_dropped
        except Exception:      # noqa: BLE001
            return True

    class _Confirmed(list):
        def append(self, x):
            if confirmed(x['case']['m'], x['case']['t'], x['case']['n'], x['case']['k'], 'drops' in x['what']):
                list.append(self, x)
    v = _Confirmed()
    for t in ths:
        ft = F(t)
        for n in range(1, nmax + 1):
            lo = {m: FU.get_size_lower_bound(n, m, t) for m in ('JACCARD', 'COSINE', 'DICE')}
            hi = {m: FU.get_size_upper_bound(n, m, t) for m in ('JACCARD', 'COSINE', 'DICE')}
            for k in range(0, nmax + 1):         # k = 0: exactly one side has no tokens (both empty is C09's business)
                a, b = min(n, k), max(n, k)
                cnt += 1
                best = {'JACCARD': F(a, b), 'DICE': F(2 * a, n + k)}
                for m in ('JACCARD', 'DICE'):
                    kept = lo[m] <= k <= hi[m]
                    if best[m] >= ft and not kept:
                        v.append(viol('C04', 'size window drops counts that reach the threshold (%s t=%r n=%d k=%d)' % (m, t, n, k), {'entry': 'size_grid', 'm': m, 't': t, 'n': n, 'k': k}))
                    if best[m] < ft - F(1, 10000) and kept:
                        v.append(viol('C14', 'size window keeps hopeless counts (%s t=%r n=%d k=%d)' % (m, t, n, k), {'entry': 'size_grid', 'm': m, 't': t, 'n': n, 'k': k}))
                kept = lo['COSINE'] <= k <= hi['COSINE']
                if F(a, b) >= ft * ft and not kept:          # sqrt(a/b) >= t
                    v.append(viol('C04', 'size window drops counts that reach the threshold (COSINE t=%r n=%d k=%d)' % (t, n, k), {'entry': 'size_grid', 'm': 'COSINE', 't': t, 'n': n, 'k': k}))
                if ft > F(1, 10000) and F(a, b) < (ft - F(1, 10000)) ** 2 and kept:
                    if k == 0:
                        # one report for the whole class (count 0 against a window whose lower bound rounded to 0)
                        if one_empty_seen:
                            continue
                        one_empty_seen = True
                    v.append(viol('C14', 'size window keeps hopeless counts (COSINE t=%r n=%d k=%d)' % (t, n, k), {'entry': 'size_grid', 'm': 'COSINE', 't': t, 'n': n, 'k': k}))
                if len(v) > 20:
                    return v
    stats.hit('oracle.size_grid.points', cnt)
    return v


def oracle_suffix_exhaustive(universe, stats):
    """C04 (SuffixFilter): the Hamming lower-bound estimator, EXHAUSTIVELY over all pairs of subsets of `universe` ranks and
    all budgets: it may exceed the budget only if the true Hamming distance does"""
    from py_stringsimjoin.filter.suffix_filter import SuffixFilter
    f = SuffixFilter(TokSpec('ws', return_set=True).obj, 'JACCARD', 0.5)
    v = []
    subsets = [[i for i in range(universe) if (mask >> i) & 1] for mask in range(1 << universe)]
    cnt = 0
    for a in subsets:
        sa = set(a)
        for b in subsets:
            H = len(sa ^ set(b))
            for hmax in range(-1, universe + 3):
                est = f._est_hamming_dist_lower_bound(a, b, len(a), len(b), hmax, 1)
                cnt += 1
                if min(est, hmax + 1) > H:
                    v.append(viol('C04', 'SuffixFilter Hamming estimate %s exceeds the true distance %d within budget %d' % (est, H, hmax),
                                  {'entry': 'suffix_estimator', 'l': a, 'r': b, 'hmax': hmax}))
                    if len(v) > 10:
                        return v
    stats.hit('oracle.suffix_exhaustive.calls', cnt)
    return v


def oracle_ed_filters_exhaustive(maxlen_ab, maxlen_abc, stats, tables=True):
    """C04 under EDIT_DISTANCE, EXHAUSTIVELY over all pairs of strings over {a,b} up to `maxlen_ab` and {a,b,c} up to
    `maxlen_abc` characters (short strings over tiny alphabets are where q-grams repeat): for q in {1,2,3}, padding on/off,
    threshold in {0,1,2,3} and each of Size/Prefix/Position/SuffixFilter, `filter_pair` must keep every pair within the
    threshold that shares a q-gram, and `filter_tables` on the table of all strings must list it."""
    import itertools
    import pandas as pd
    import py_stringmatching as sm
    lev = sm.Levenshtein().get_raw_score
    v = []
    cnt = 0
    for alpha, maxlen in (('ab', maxlen_ab), ('abc', maxlen_abc)):
        strs = [''.join(t) for n in range(0, maxlen + 1) for t in itertools.product(alpha, repeat=n)]
        dist = {}
        for q in (1, 2, 3):
            for pad in (False, True):
                tok = sm.QgramTokenizer(qval=q, padding=pad, return_set=False)
                toks = {x: tok.tokenize(x) for x in strs}
                tsets = {x: set(toks[x]) for x in strs}
                for tau in (0, 1, 2, 3, 0.5, 1.0, 2.5):      # the documented type of the threshold is float
                    qual = []
                    for x in strs:
                        for y in strs:
                            if abs(len(x) - len(y)) > tau or not (tsets[x] & tsets[y]):
                                continue
                            d = dist.get((x, y))
                            if d is None:
                                d = dist[(x, y)] = lev(x, y)
                            if d <= tau:
                                qual.append((x, y))
                    for kind, cls in S.FILTERS.items():
                        if kind == 'overlap':
                            continue
                        f = cls(tok, 'EDIT_DISTANCE', tau)
                        case0 = {'entry': 'ed_filters_exhaustive', 'kind': kind, 'qval': q, 'padding': pad, 'threshold': tau}
                        for (x, y) in qual:
                            cnt += 1
                            if f.filter_pair(x, y):
                                v.append(viol('C04', '%sFilter.filter_pair drops a qualifying pair (EDIT_DISTANCE, t=%r, q=%d, padding=%s: %r / %r)'
                                              % (kind, tau, q, pad, x, y), dict(case0, strings=[x, y])))
                                if len(v) > 12:
                                    return v
                        if tables and len(strs) <= 70:
                            T = pd.DataFrame({'id': list(range(len(strs))), 'attr': pd.Series(strs, dtype=object)})
                            out = f.filter_tables(T, T, 'id', 'id', 'attr', 'attr', n_jobs=1, show_progress=False)
                            kept = set(zip(out['l_id'], out['r_id']))
                            pos = {x: i for i, x in enumerate(strs)}
                            for (x, y) in qual:
                                cnt += 1
                                if (pos[x], pos[y]) not in kept:
                                    v.append(viol('C04', '%sFilter.filter_tables omits a qualifying pair (EDIT_DISTANCE, t=%r, q=%d, padding=%s: %r / %r)'
                                                  % (kind, tau, q, pad, x, y), dict(case0, strings=[x, y], table='all strings over %r up to length %d' % (alpha, maxlen))))
                                    if len(v) > 12:
                                        return v
    stats.hit('oracle.ed_filters_exhaustive.checks', cnt)
    return v


def oracle_split_exhaustive(nmax, kmax, stats):
    """C10: the REAL split_table yields a contiguous partition for every (table length <= nmax, 1 <= k <= min(len, kmax)),
    exhaustively"""
    from py_stringsimjoin.utils import generic_helper as GH
    v = []
    cnt = 0
    for n in range(0, nmax + 1):
        table = list(range(n))
        for k in range(1, min(n, kmax) + 1):
            cnt += 1
            try:
                parts = GH.split_table(table, k)
            except Exception as e:    # noqa: BLE001
                v.append(viol('C10', 'split_table(%d rows, %d splits) raised %s' % (n, k, type(e).__name__), {'entry': 'split_table', 'len': n, 'k': k}))
                continue
            flat = [x for p in parts for x in p]
            if flat != table:          # every row exactly once, in order: what the joins' chunking relies on (how many parts: not C10's business)
                v.append(viol('C10', 'split_table(%d rows, %d splits) is not a contiguous partition (%d rows survive)' % (n, k, len(flat)),
                              {'entry': 'split_table', 'len': n, 'k': k}, n, len(flat)))
                if len(v) > 10:
                    return v
    # (how many workers an n_jobs value stands for is not part of C10 — only that the result does not depend on it; the
    #  helper get_num_processes_to_launch is compared with the model in the correspondence suite `gen`, where a different
    #  rule is a broken obligation, not a failing input)
    stats.hit('oracle.split_exhaustive.cases', cnt)
    return v

#!/bin/sh
# Build the framework offline from files on disk: regenerate the translated kernel from /repo, build the Lean library
# (model + proofs + property theorems) and the model driver executable.
set -e
cd "$(dirname "$0")/.."
python3 tools/py2lean.py "${SSJ_REPO:-/repo}" lean/SSJ/Gen >/dev/null
python3 tools/py2lean2.py "${SSJ_REPO:-/repo}" lean/SSJ/Gen >/dev/null
cd lean
lake build driver
lake build SSJ.Props.All SSJ.Proofs.GenLoops SSJ.Proofs.GenLoops2 SSJ.Proofs.GenLoops3

#!/usr/bin/env python3
"""reconfirm_seeded.py : re-run tools/verify_seeded.py for every stored seeded change against the CURRENT /repo HEAD
(patch applies; the 109 stable tests pass with it; demo exits 1 with and 0 without the change) and record the outcome
in seeded/<id>/meta.json under `confirmed_at_head`.  Six at a time (each in its own scratch worktree)."""
import json, os, subprocess, sys
from concurrent.futures import ThreadPoolExecutor
V = os.path.dirname(os.path.dirname(os.path.abspath(__file__)))
S = os.path.join(V, 'seeded')
head = subprocess.run(['git', '-C', '/repo', 'log', '-1', '--format=%h'], stdout=subprocess.PIPE, text=True).stdout.strip()


def one(sid):
    d = os.path.join(S, sid)
    out = subprocess.run([sys.executable, os.path.join(V, 'tools', 'verify_seeded.py'), sid.split('-')[0], d], stdout=subprocess.PIPE, text=True).stdout.strip().splitlines()
    try:
        v = json.loads(out[-1])
    except Exception:       # noqa: BLE001
        v = {'error': out[-3:]}
    m = json.load(open(os.path.join(d, 'meta.json')))
    m['confirmed_at_head'] = {'head': head, 'result': {k: v.get(k) for k in ('confirmed', 'applies', 'demo_without', 'demo_with', 'stable_missing', 'n_passed', 'error')}}
    m['run_checks'] = 'tools/run_seeded_all.py %s' % sid.split('-')[0]
    json.dump(m, open(os.path.join(d, 'meta.json'), 'w'), indent=1)
    return sid, v.get('confirmed')


ids = sorted(d for d in os.listdir(S) if os.path.isdir(os.path.join(S, d)))
with ThreadPoolExecutor(6) as ex:
    res = list(ex.map(one, ids))
bad = [r for r in res if not r[1]]
print('reconfirmed %d/%d at %s; not confirmed: %s' % (len(res) - len(bad), len(res), head, bad))
